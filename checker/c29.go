package main

// C29 — shell history survives restarts and crashes (shell/history/history.go).
//
// The rules decide structural necessary conditions of the JSON-lines framing:
// the reader has no token-size limit and never leaves its loop early, the
// writer appends each record with one write that is a single line, begins on
// a fresh line and ends with the delimiter, the writer's JSON keys are the
// reader's keys, nothing in the package rewrites the file, and the
// write-enabled gate has the right polarity.

import (
	"go/ast"
	"go/constant"
	"go/token"
	"go/types"
	"reflect"
	"sort"
	"strings"

	"golang.org/x/tools/go/packages"
)

func init() {
	register("C29", "Decides (structurally, for shell/history): the history reader imposes no record-length limit below 1 GiB and its scan loop has no exit other than end of input (a bad or over-long record cannot hide later records); every record is appended (O_APPEND|O_CREATE, no O_TRUNC, no other file-mutating call in the package) by exactly one write whose bytes are <delimiter?><one-line JSON><delimiter>, the write error is returned; a record begins with a delimiter or the file tail is inspected (a torn tail cannot swallow the next record); the writer's JSON keys are the keys the reader decodes; the early returns before the write happen only on error or when history-write-enabled is false. Does NOT decide fsync/durability, the JSON round trip of arbitrary text, or what the OS does with a partial append.", runC29)
}

const c29Pkg = "shell/history"

// ---------------------------------------------------------------- definitions

// c29def is one definition of a local variable: rhs expression and, when the
// rhs is a multi-value call, the index of the result that defines the variable
// (idx -1 for a plain 1:1 assignment). rhs nil = not a plain definition.
type c29def struct {
	rhs ast.Expr
	idx int
	pos token.Pos
}

type c29defs map[types.Object][]c29def

// c29TopStmt: positions of the statements that are direct children of a function
// body handed to c29Defs (executed unconditionally, in order, unless an earlier
// statement leaves the function). c29UsePos: position of the use whose value
// c29Bytes is asked for (0 = unknown).
var (
	c29TopStmt = map[token.Pos]bool{}
	c29UsePos  token.Pos
)

func c29Defs(info *types.Info, body ast.Node) c29defs {
	m := c29defs{}
	if blk, ok := body.(*ast.BlockStmt); ok && blk != nil {
		for _, st := range blk.List {
			c29TopStmt[st.Pos()] = true
		}
	}
	add := func(id *ast.Ident, d c29def) {
		if id == nil || id.Name == "_" {
			return
		}
		if o := info.ObjectOf(id); o != nil {
			m[o] = append(m[o], d)
		}
	}
	ast.Inspect(body, func(n ast.Node) bool {
		switch s := n.(type) {
		case *ast.AssignStmt:
			for i, l := range s.Lhs {
				id, ok := unparen(l).(*ast.Ident)
				if !ok {
					continue
				}
				switch {
				case s.Tok != token.ASSIGN && s.Tok != token.DEFINE:
					add(id, c29def{nil, -1, s.Pos()})
				case len(s.Lhs) == len(s.Rhs):
					add(id, c29def{s.Rhs[i], -1, s.Pos()})
				case len(s.Rhs) == 1:
					add(id, c29def{s.Rhs[0], i, s.Pos()})
				default:
					add(id, c29def{nil, -1, s.Pos()})
				}
			}
		case *ast.ValueSpec:
			for i, id := range s.Names {
				switch {
				case len(s.Values) == len(s.Names):
					add(id, c29def{s.Values[i], -1, s.Pos()})
				case len(s.Values) == 1:
					add(id, c29def{s.Values[0], i, s.Pos()})
				}
			}
		case *ast.IncDecStmt:
			if id, ok := unparen(s.X).(*ast.Ident); ok {
				add(id, c29def{nil, -1, s.Pos()})
			}
		case *ast.RangeStmt:
			for _, e := range []ast.Expr{s.Key, s.Value} {
				if id, ok := e.(*ast.Ident); ok {
					add(id, c29def{nil, -1, s.Pos()})
				}
			}
		case *ast.UnaryExpr:
			// &x handed to somebody: x may be written through the pointer. The
			// callers of this table that care (decode targets) look for this
			// themselves; for byte strings an address-taken local is unknown.
			if s.Op == token.AND {
				if id, ok := unparen(s.X).(*ast.Ident); ok {
					add(id, c29def{nil, -1, s.Pos()})
				}
			}
		}
		return true
	})
	return m
}

// single returns the only definition of the local e names (if e is such an
// identifier and it has exactly one plain definition).
func (d c29defs) single(info *types.Info, e ast.Expr) (c29def, bool) {
	id, ok := unparen(e).(*ast.Ident)
	if !ok {
		return c29def{}, false
	}
	ds := d[info.ObjectOf(id)]
	if len(ds) != 1 || ds[0].rhs == nil {
		return c29def{}, false
	}
	return ds[0], true
}

// ---------------------------------------------------------------- byte strings

// c29part is one segment of a statically evaluated byte string.
type c29part struct {
	kind string // "const" | "json" (result of encoding/json.Marshal: one line, no raw newline) | "jsonml" (MarshalIndent: multi-line) | "unknown"
	val  string // const bytes
	src  string
}

// c29Bytes evaluates the expression to a concatenation of parts.
func (c *Ctx) c29Bytes(info *types.Info, defs c29defs, e ast.Expr, depth int) []c29part {
	e = unparen(e)
	unknown := []c29part{{kind: "unknown", src: c.src(e)}}
	if depth > 8 {
		return unknown
	}
	if s, ok := constString(info, e); ok {
		return []c29part{{kind: "const", val: s}}
	}
	if v := constOf(info, e); v != nil && v.Kind() == constant.Int { // a byte/rune constant
		if i, ok := constant.Int64Val(v); ok && i >= 0 && i < 256 {
			return []c29part{{kind: "const", val: string([]byte{byte(i)})}}
		}
	}
	switch x := e.(type) {
	case *ast.Ident:
		if d, ok := defs.single(info, x); ok {
			if d.idx < 0 {
				return c.c29Bytes(info, defs, d.rhs, depth+1)
			}
			if call, ok := unparen(d.rhs).(*ast.CallExpr); ok && d.idx == 0 {
				if callIs(info, call, "encoding/json", "", "Marshal") {
					return []c29part{{kind: "json", src: c.src(call)}}
				}
				if callIs(info, call, "encoding/json", "", "MarshalIndent") {
					return []c29part{{kind: "jsonml", src: c.src(call)}}
				}
			}
			return unknown
		}
		return c.c29BytesMulti(info, defs, x, depth)
	case *ast.BinaryExpr:
		if x.Op == token.ADD {
			return append(c.c29Bytes(info, defs, x.X, depth+1), c.c29Bytes(info, defs, x.Y, depth+1)...)
		}
	case *ast.CompositeLit:
		// []byte{'\n', ...}
		var sb []byte
		for _, el := range x.Elts {
			v, ok := constInt(info, el)
			if !ok || v < 0 || v > 255 {
				return unknown
			}
			sb = append(sb, byte(v))
		}
		return []c29part{{kind: "const", val: string(sb)}}
	case *ast.CallExpr:
		if len(x.Args) == 1 {
			if tv, ok := info.Types[x.Fun]; ok && tv.IsType() { // []byte(x) / string(x)
				return c.c29Bytes(info, defs, x.Args[0], depth+1)
			}
		}
		if ap, ok := isBuiltinCall(info, x, "append"); ok && len(ap.Args) >= 1 {
			out := c.c29Bytes(info, defs, ap.Args[0], depth+1)
			if ap.Ellipsis.IsValid() && len(ap.Args) == 2 {
				return append(out, c.c29Bytes(info, defs, ap.Args[1], depth+1)...)
			}
			for _, a := range ap.Args[1:] {
				out = append(out, c.c29Bytes(info, defs, a, depth+1)...)
			}
			return out
		}
	}
	return unknown
}

// c29BytesMulti: a local with one base definition plus conditional
// self-extensions (x = append(<const>, x...) / x = append(x, <const>...)):
// the value is <optional const> base <optional const>.
func (c *Ctx) c29BytesMulti(info *types.Info, defs c29defs, x *ast.Ident, depth int) []c29part {
	unknown := []c29part{{kind: "unknown", src: c.src(x)}}
	obj := info.ObjectOf(x)
	ds := defs[obj]
	if len(ds) < 2 || len(ds) > 4 {
		return unknown
	}
	var base *c29def
	var pre, post []c29part
	for i := range ds {
		if ds[i].rhs != nil && !mentions(info, ds[i].rhs, obj) {
			if base != nil {
				return unknown
			}
			base = &ds[i]
		}
	}
	for i := range ds {
		d := ds[i]
		if d.rhs == nil {
			return unknown
		}
		if base == &ds[i] {
			continue
		}
		// an extension that is a statement of the function body itself, after the
		// base definition and before the use, always happens: its bytes are part
		// of the value, not "conditionally present"
		ext := "optconst"
		if base != nil && c29UsePos.IsValid() && c29TopStmt[d.pos] && c29TopStmt[base.pos] && base.pos < d.pos && d.pos < c29UsePos {
			ext = "const"
		}
		ap, ok := isBuiltinCall(info, d.rhs, "append")
		if !ok || d.idx >= 0 || len(ap.Args) != 2 {
			return unknown
		}
		a0, a1 := unparen(ap.Args[0]), unparen(ap.Args[1])
		id0, is0 := a0.(*ast.Ident)
		id1, is1 := a1.(*ast.Ident)
		switch {
		case is1 && info.ObjectOf(id1) == obj && ap.Ellipsis.IsValid() && !mentions(info, a0, obj):
			ps := c.c29Bytes(info, c29defs{}, a0, depth+1)
			if len(ps) != 1 || ps[0].kind != "const" {
				return unknown
			}
			pre = append([]c29part{{kind: ext, val: ps[0].val}}, pre...)
		case is0 && info.ObjectOf(id0) == obj && !mentions(info, a1, obj):
			ps := c.c29Bytes(info, c29defs{}, a1, depth+1)
			if len(ps) != 1 || ps[0].kind != "const" {
				return unknown
			}
			post = append(post, c29part{kind: ext, val: ps[0].val})
		default:
			return unknown
		}
	}
	if base == nil {
		return unknown
	}
	single := c29defs{obj: []c29def{*base}}
	for k, v := range defs {
		if k != obj {
			single[k] = v
		}
	}
	mid := c.c29Bytes(info, single, x, depth+1)
	return append(append(pre, mid...), post...)
}

func c29IsSpace(s string) bool {
	return strings.Trim(s, " \t\r\n") == ""
}

// c29Record classifies an evaluated write payload.
type c29rec struct {
	isRecord   bool   // contains the marshalled record
	delimOnly  bool   // constant whitespace containing a newline
	problem    string // non-empty: malformed framing
	undecided  string // non-empty: cannot evaluate
	leadingNL  bool   // record: a newline precedes the JSON
	trailingNL bool   // record: a newline follows the JSON
}

func c29Classify(parts []c29part) c29rec {
	var r c29rec
	nJSON := 0
	for _, p := range parts {
		if p.kind == "json" || p.kind == "jsonml" {
			nJSON++
		}
	}
	if nJSON == 0 {
		all := ""
		for _, p := range parts {
			if p.kind == "optconst" {
				r.undecided = "conditionally extended constant payload"
				return r
			}
			if p.kind != "const" {
				r.undecided = "payload " + p.src + " is neither the marshalled record nor a constant delimiter"
				return r
			}
			all += p.val
		}
		if c29IsSpace(all) && strings.Contains(all, "\n") {
			r.delimOnly = true
			return r
		}
		r.problem = "constant payload that is not a record delimiter"
		return r
	}
	r.isRecord = true
	if nJSON > 1 {
		r.problem = "more than one marshalled value in one record"
		return r
	}
	before, after, seen := "", "", false
	for _, p := range parts {
		switch p.kind {
		case "json":
			seen = true
		case "jsonml":
			seen = true
			r.problem = "record is marshalled with MarshalIndent: a multi-line record cannot be read back by a line reader"
		case "const":
			if seen {
				after += p.val
			} else {
				before += p.val
			}
		case "optconst": // conditionally present: must be harmless whitespace, guarantees nothing
			if !c29IsSpace(p.val) {
				r.problem = "non-whitespace bytes are conditionally glued to the JSON record on its line"
			}
		default:
			r.undecided = "record payload contains " + p.src + " which cannot be evaluated"
			return r
		}
	}
	if !c29IsSpace(before) || !c29IsSpace(after) {
		if r.problem == "" {
			r.problem = "non-whitespace bytes are glued to the JSON record on its line"
		}
	}
	r.leadingNL = strings.Contains(before, "\n")
	r.trailingNL = strings.HasSuffix(after, "\n")
	return r
}

// ---------------------------------------------------------------- JSON keys

type c29key struct {
	name  string // JSON key
	field *types.Var
}

// c29JSONKeys: exported fields of a struct with their encoding/json key
// (tag name or field name); fields tagged "-" are skipped. Embedded structs
// are not expanded (none in scope; reported by the caller when met).
func c29JSONKeys(t types.Type) (keys []c29key, embedded bool) {
	st := structOf(t)
	if st == nil {
		return nil, false
	}
	for i := 0; i < st.NumFields(); i++ {
		f := st.Field(i)
		if f.Embedded() {
			embedded = true
			continue
		}
		if !f.Exported() {
			continue
		}
		name := f.Name()
		if tag, ok := reflect.StructTag(st.Tag(i)).Lookup("json"); ok {
			if tag == "-" {
				continue
			}
			if n := strings.Split(tag, ",")[0]; n != "" {
				name = n
			}
		}
		keys = append(keys, c29key{name, f})
	}
	return
}

// ---------------------------------------------------------------- the rules

func runC29(c *Ctx) {
	c.Load(c29Pkg)
	pk := c.Pkg(c29Pkg)
	if pk == nil {
		c.Lost("R29a", "pkg", "shell/history not loaded")
		return
	}
	info := pk.TypesInfo

	c.Rule("R29a", "reader: every bufio.Scanner over the history file has its token limit raised to >= 1 GiB before the first Scan (or a bufio.Reader is used, whose ReadLine pieces are reassembled: isPrefix is consulted); the scan loop has no break/return/goto/panic (only end of input ends it); an iteration skips a line only on decode error or empty text; the decoded value is what is appended")
	c.Rule("R29b", "writer: the history file is opened O_APPEND|O_CREATE with write access and without O_TRUNC/O_EXCL on the receiver's filename; exactly one write carries the record and its bytes are <whitespace?><json.Marshal result><...newline> (one line, terminator in the same write); any other write to the file is a constant delimiter; the record write's error is the returned error; no other call in the package truncates, rewrites, renames or removes a file")
	c.Rule("R29c", "framing after a crash: the record's bytes begin with a newline, or the function reads the file tail and conditionally emits a newline first — otherwise a torn (unterminated) last record swallows the next record appended")
	c.Rule("R29d", "schema agreement: every field of the struct the reader decodes into that is not assigned by the reader itself has a JSON key (encoding/json rules, case-insensitive on decode) produced by the struct the writer marshals, with the same Go type; the writer's text field is derived from Write's parameter")
	c.Rule("R29e", "write-enabled gate: every return of the writer that precedes the record write is reached only on an error or when the `shell`/`history-write-enabled` setting is false")

	// ---- readers and writers are found by what they do, not by name
	type fileVar struct {
		obj  types.Object
		call *ast.CallExpr
	}
	var readers, writers []*ast.FuncDecl
	openIn := map[*ast.FuncDecl][]fileVar{}
	eachFunc(pk, func(fd *ast.FuncDecl) {
		defs := c29Defs(info, fd.Body)
		for obj, ds := range defs {
			for _, d := range ds {
				call, ok := unparen0(d.rhs).(*ast.CallExpr)
				if !ok || d.idx != 0 {
					continue
				}
				if callIs(info, call, "os", "", "Open") || callIs(info, call, "os", "", "OpenFile") {
					openIn[fd] = append(openIn[fd], fileVar{obj, call})
				}
			}
		}
		for _, call := range calls(fd.Body, true) {
			if callIs(info, call, "bufio", "", "NewScanner") || callIs(info, call, "bufio", "", "NewReader") || callIs(info, call, "bufio", "", "NewReaderSize") {
				readers = append(readers, fd)
				break
			}
		}
		for _, call := range calls(fd.Body, true) {
			if callIs(info, call, "os", "", "OpenFile") && !c.c29ReadOnlyOpen(info, call) {
				writers = append(writers, fd)
				break
			}
		}
	})
	c.MinCount("R29a", "functions reading the history file through bufio", len(readers), 1)
	c.MinCount("R29b", "functions opening the history file with os.OpenFile", len(writers), 1)

	var readerType types.Type           // struct decoded into
	readerAssigned := map[string]bool{} // fields the reader sets itself after decoding
	for _, fd := range readers {
		t, assigned := c.c29Reader(pk, fd)
		if t != nil {
			readerType = t
			for k := range assigned {
				readerAssigned[k] = true
			}
		}
	}
	var writerType types.Type
	var writerLit *ast.CompositeLit
	var writerFd *ast.FuncDecl
	for _, fd := range writers {
		t, lit := c.c29Writer(pk, fd)
		if t != nil {
			writerType, writerLit, writerFd = t, lit, fd
		}
	}
	c.c29NoRewrite(pk, writers)
	c.c29Schema(pk, readerType, readerAssigned, writerType, writerLit, writerFd)
}

func unparen0(e ast.Expr) ast.Expr {
	if e == nil {
		return nil
	}
	return unparen(e)
}

// recvObjOfCall: x.M(...) -> object of identifier x (nil otherwise)
func c29RecvObj(info *types.Info, call *ast.CallExpr) types.Object {
	se, ok := call.Fun.(*ast.SelectorExpr)
	if !ok {
		return nil
	}
	id, ok := unparen(se.X).(*ast.Ident)
	if !ok {
		return nil
	}
	return info.ObjectOf(id)
}

// c29Reader checks R29a on one reading function. Returns the decoded struct type
// and the set of its fields the reader assigns itself.
func (c *Ctx) c29Reader(pk *packages.Package, fd *ast.FuncDecl) (types.Type, map[string]bool) {
	info := pk.TypesInfo
	fn := fd.Name.Name
	defs := c29Defs(info, fd.Body)
	var decoded types.Type
	assigned := map[string]bool{}

	// scanners created in this function
	type scn struct {
		obj  types.Object
		call *ast.CallExpr
	}
	var scanners []scn
	usesReader := false
	for obj, ds := range defs {
		for _, d := range ds {
			call, ok := unparen0(d.rhs).(*ast.CallExpr)
			if !ok {
				continue
			}
			if callIs(info, call, "bufio", "", "NewScanner") {
				scanners = append(scanners, scn{obj, call})
			}
			if callIs(info, call, "bufio", "", "NewReader") || callIs(info, call, "bufio", "", "NewReaderSize") {
				usesReader = true
			}
		}
	}
	sort.Slice(scanners, func(i, j int) bool { return scanners[i].call.Pos() < scanners[j].call.Pos() })
	if len(scanners) == 0 {
		if usesReader {
			// ReadBytes/ReadString have no record limit; ReadLine has one in disguise: a line longer than the
			// reader's buffer comes back in pieces flagged isPrefix, so a caller that drops the flag decodes
			// fragments (each fails to parse and the long entry is lost)
			pieces := false
			ast.Inspect(fd.Body, func(n ast.Node) bool {
				as, ok := n.(*ast.AssignStmt)
				if !ok || len(as.Rhs) != 1 || len(as.Lhs) != 3 {
					return true
				}
				call, ok := unparen0(as.Rhs[0]).(*ast.CallExpr)
				if !ok || !callIs(info, call, "bufio", "Reader", "ReadLine") {
					return true
				}
				used := false
				if id, ok := as.Lhs[1].(*ast.Ident); ok && id.Name != "_" {
					obj := info.ObjectOf(id)
					ast.Inspect(fd.Body, func(m ast.Node) bool {
						if u, ok := m.(*ast.Ident); ok && u != id && info.Uses[u] == obj {
							used = true
						}
						return true
					})
				}
				if !used {
					pieces = true
					c.Viol("R29a", fn+":record-limit", call.Pos(), "%s reads records with bufio.Reader.ReadLine and never looks at isPrefix: an entry longer than the reader's buffer is delivered in pieces, none of which decodes — the entry is lost", fn)
				}
				return true
			})
			if !pieces {
				c.OK("R29a", fn+":record-limit", fd.Pos(), "%s reads through a bufio.Reader (ReadBytes/ReadString, or ReadLine with isPrefix consulted): no record-size limit applies", fn)
			}
		} else {
			c.Undecided("R29a", fn+":record-limit", fd.Pos(), "%s creates a bufio reader that is not bound to a local variable; cannot decide its record-length limit", fn)
		}
	}
	const minLimit = 1 << 30
	for _, s := range scanners {
		// the scan loop(s) of this scanner
		var loops []*ast.ForStmt
		explicitHead := map[*ast.ForStmt]bool{}
		ast.Inspect(fd.Body, func(n ast.Node) bool {
			if f, ok := n.(*ast.ForStmt); ok {
				hit := false
				var hdr []ast.Node
				if f.Cond != nil {
					hdr = append(hdr, f.Cond)
				}
				if f.Init != nil {
					hdr = append(hdr, f.Init)
				}
				if f.Post != nil {
					hdr = append(hdr, f.Post)
				}
				for _, e := range hdr {
					if e == nil {
						continue
					}
					for _, call := range calls(e, false) {
						if callIs(info, call, "bufio", "Scanner", "Scan") && c29RecvObj(info, call) == s.obj {
							hit = true
						}
					}
				}
				if !hit && f.Cond == nil && f.Init == nil && f.Post == nil && len(f.Body.List) > 0 && c29ScanBreakHead(info, f.Body.List[0], s.obj) {
					// for { if !sc.Scan() { break }; … } is `for sc.Scan() { … }`
					hit = true
					explicitHead[f] = true
				}
				if !hit && f.Cond == nil { // for { if !sc.Scan() { break } ... }
					for _, call := range calls(f.Body, false) {
						if callIs(info, call, "bufio", "Scanner", "Scan") && c29RecvObj(info, call) == s.obj {
							hit = true
						}
					}
					if hit {
						c.Undecided("R29a", fn+":scan-loop", f.Pos(), "scan loop of %s is not of the form `for sc.Scan() {…}`; its exits cannot be classified", fn)
						return true
					}
				}
				if hit {
					loops = append(loops, f)
				}
			}
			return true
		})
		if len(loops) == 0 {
			c.Undecided("R29a", fn+":scan-loop", s.call.Pos(), "no `for sc.Scan()` loop found for the scanner created in %s", fn)
			continue
		}
		firstLoop := loops[0]

		// (1) Buffer raised before the loop, unconditionally
		var bufCall *ast.CallExpr
		uncond := false
		for i, st := range fd.Body.List {
			if st.End() > firstLoop.Pos() {
				break
			}
			_ = i
			if es, ok := st.(*ast.ExprStmt); ok {
				if call, ok := es.X.(*ast.CallExpr); ok && callIs(info, call, "bufio", "Scanner", "Buffer") && c29RecvObj(info, call) == s.obj {
					bufCall, uncond = call, true
				}
			}
		}
		if bufCall == nil {
			for _, call := range calls(fd.Body, true) {
				if callIs(info, call, "bufio", "Scanner", "Buffer") && c29RecvObj(info, call) == s.obj {
					bufCall = call
				}
			}
		}
		key := fn + ":record-limit"
		switch {
		case bufCall == nil:
			c.Viol("R29a", key, s.call.Pos(), "bufio.Scanner in %s keeps the default 64 KiB token limit (no Buffer call): a history entry longer than that makes Scan return false, so that entry and every later entry are lost on reload", fn)
		case !uncond:
			c.Undecided("R29a", key, bufCall.Pos(), "Scanner.Buffer in %s is not an unconditional statement of the function body before the scan loop; cannot decide that the limit is raised on every path", fn)
		default:
			if v, ok := constInt(info, bufCall.Args[1]); ok {
				if v >= minLimit {
					c.OK("R29a", key, bufCall.Pos(), "Scanner.Buffer raises the token limit to %d before the scan loop", v)
				} else {
					c.Viol("R29a", key, bufCall.Pos(), "Scanner.Buffer in %s sets the token limit to %d bytes: a longer history entry ends the scan, so it and every later entry are lost on reload (limit must be >= 1 GiB, i.e. not a practical bound)", fn, v)
				}
			} else {
				c.Undecided("R29a", key, bufCall.Pos(), "Scanner.Buffer limit %s in %s is not a constant; cannot decide the record-length limit", c.src(bufCall.Args[1]), fn)
			}
		}
		// custom split functions change the framing
		for _, call := range calls(fd.Body, true) {
			if callIs(info, call, "bufio", "Scanner", "Split") && c29RecvObj(info, call) == s.obj {
				if len(call.Args) == 1 && isPkgObj(info, call.Args[0], "bufio", "ScanLines") {
					continue
				}
				c.Undecided("R29a", fn+":split", call.Pos(), "scanner in %s uses split function %s; line framing cannot be decided", fn, c.src(call.Args[0]))
			}
		}

		// (2) loop exits
		for li, loop := range loops {
			lkey := fn + ":loop-exits"
			if li > 0 {
				lkey += "#" + itoa(li+1)
			}
			var bad []string
			var badPos token.Pos
			var visit func(n ast.Node, brk, cont bool)
			visit = func(n ast.Node, brk, cont bool) {
				ast.Inspect(n, func(x ast.Node) bool {
					switch s := x.(type) {
					case *ast.FuncLit:
						return false
					case *ast.ForStmt, *ast.RangeStmt:
						if x != n {
							// inside a nested loop an unlabelled break/continue is local
							var body *ast.BlockStmt
							if f, ok := s.(*ast.ForStmt); ok {
								body = f.Body
							} else {
								body = s.(*ast.RangeStmt).Body
							}
							visit(body, false, false)
							return false
						}
					case *ast.SwitchStmt, *ast.TypeSwitchStmt, *ast.SelectStmt:
						if x != n {
							var body *ast.BlockStmt
							switch y := s.(type) {
							case *ast.SwitchStmt:
								body = y.Body
							case *ast.TypeSwitchStmt:
								body = y.Body
							case *ast.SelectStmt:
								body = y.Body
							}
							visit(body, false, cont)
							return false
						}
					case *ast.ReturnStmt:
						bad = append(bad, "return")
						if badPos == token.NoPos {
							badPos = s.Pos()
						}
					case *ast.BranchStmt:
						switch {
						case s.Tok == token.CONTINUE && s.Label != nil:
							c.Undecided("R29a", lkey+":labelled-continue", s.Pos(), "labelled continue %s inside the scan loop of %s; target loop not resolved", labelName(s), fn)
						case s.Tok == token.GOTO, s.Label != nil:
							bad = append(bad, s.Tok.String()+" "+labelName(s))
							if badPos == token.NoPos {
								badPos = s.Pos()
							}
						case s.Tok == token.BREAK && brk:
							bad = append(bad, "break")
							if badPos == token.NoPos {
								badPos = s.Pos()
							}
						}
					case *ast.ExprStmt:
						if call, ok := s.X.(*ast.CallExpr); ok {
							if id, ok := call.Fun.(*ast.Ident); ok && id.Name == "panic" {
								if _, isB := info.Uses[id].(*types.Builtin); isB {
									bad = append(bad, "panic")
									if badPos == token.NoPos {
										badPos = s.Pos()
									}
								}
							}
						}
					}
					return true
				})
			}
			if explicitHead[loop] {
				// the written-out loop condition is not an exit of the body
				visit(&ast.BlockStmt{Lbrace: loop.Body.Lbrace, List: loop.Body.List[1:], Rbrace: loop.Body.Rbrace}, true, true)
			} else {
				visit(loop.Body, true, true)
			}
			if len(bad) == 0 {
				c.OK("R29a", lkey, loop.Pos(), "scan loop of %s ends only at end of input", fn)
			} else {
				c.Viol("R29a", lkey, badPos, "scan loop of %s can be left by %s: one unreadable (torn, blank, foreign) line would hide every later history entry on reload", fn, strings.Join(bad, ", "))
			}

			// (3) decode + append inside the loop
			var target types.Object
			var unmarshal *ast.CallExpr
			for _, call := range calls(loop.Body, false) {
				if callIs(info, call, "encoding/json", "", "Unmarshal") && len(call.Args) == 2 {
					unmarshal = call
				}
			}
			if unmarshal == nil {
				c.Undecided("R29a", fn+":decode", loop.Pos(), "scan loop of %s does not decode with encoding/json.Unmarshal; record format unknown to this rule", fn)
				continue
			}
			// source bytes come from this scanner
			srcOK := false
			srcE := stripConv(info, unmarshal.Args[0])
			if d, ok := defs.single(info, srcE); ok && d.idx < 0 { // line := scanner.Bytes()
				srcE = stripConv(info, d.rhs)
			}
			if call, ok := srcE.(*ast.CallExpr); ok {
				if (callIs(info, call, "bufio", "Scanner", "Bytes") || callIs(info, call, "bufio", "Scanner", "Text")) && c29RecvObj(info, call) == s.obj {
					srcOK = true
				}
			}
			c.Check(srcOK, "R29a", fn+":decode-source", unmarshal.Pos(), "each scanned line (Scanner.Bytes/Text of the same scanner) is what json.Unmarshal decodes (got %s)", c.src(unmarshal.Args[0]))
			if u, ok := unparen(unmarshal.Args[1]).(*ast.UnaryExpr); ok && u.Op == token.AND {
				if id, ok := unparen(u.X).(*ast.Ident); ok {
					target = info.ObjectOf(id)
					decoded = info.TypeOf(id)
				}
			}
			if target == nil {
				c.Undecided("R29a", fn+":decode", unmarshal.Pos(), "decode target %s is not the address of a local", c.src(unmarshal.Args[1]))
				continue
			}
			// the unmarshal error variable
			var errObj types.Object
			walkStack(loop.Body, func(n ast.Node, _ []ast.Node) bool {
				if as, ok := n.(*ast.AssignStmt); ok && len(as.Rhs) == 1 && unparen(as.Rhs[0]) == ast.Expr(unmarshal) && len(as.Lhs) == 1 {
					if id, ok := as.Lhs[0].(*ast.Ident); ok && id.Name != "_" {
						errObj = info.ObjectOf(id)
					}
				}
				return true
			})
			// fields the reader assigns itself
			ast.Inspect(loop.Body, func(n ast.Node) bool {
				if as, ok := n.(*ast.AssignStmt); ok {
					for _, l := range as.Lhs {
						if se, ok := unparen(l).(*ast.SelectorExpr); ok {
							if id, ok := unparen(se.X).(*ast.Ident); ok && info.ObjectOf(id) == target {
								assigned[se.Sel.Name] = true
							}
						}
					}
				}
				return true
			})
			// the append of the decoded value and its guards
			nApp := 0
			walkStack(loop.Body, func(n ast.Node, stack []ast.Node) bool {
				call, ok := n.(*ast.CallExpr)
				if !ok {
					return true
				}
				ap, ok := isBuiltinCall(info, call, "append")
				if !ok || len(ap.Args) != 2 || ap.Ellipsis.IsValid() {
					return true
				}
				id, ok := unparen(ap.Args[1]).(*ast.Ident)
				if !ok || info.ObjectOf(id) != target {
					return true
				}
				nApp++
				facts := factsOf(guardsAt(info, stack))
				okAll := true
				var why []string
				for _, f := range facts {
					// the written-out loop condition (`if !sc.Scan() { break }`) is not a skip
					if cl, isCall := unparen(f.E).(*ast.CallExpr); isCall && f.True && callIs(info, cl, "bufio", "Scanner", "Scan") && c29RecvObj(info, cl) == s.obj {
						continue
					}
					switch c.c29SkipAtom(info, f.E, errObj, target) {
					case "err":
						if f.True { // appended only when decode failed
							okAll = false
							why = append(why, "appends when the decode error is non-nil")
						}
					case "empty":
						if f.True {
							okAll = false
							why = append(why, "appends only records with empty text")
						}
					case "nonempty":
						if !f.True {
							okAll = false
							why = append(why, "appends only records with empty text")
						}
					case "noerr":
						if !f.True {
							okAll = false
							why = append(why, "appends when the decode error is non-nil")
						}
					default:
						okAll = false
						why = append(why, "unrecognised skip condition "+c.src(f.E))
						c.Undecided("R29a", fn+":append-guard", f.E.Pos(), "the append of the decoded record in %s depends on %s (truth %v), which is neither the decode error nor the empty-text test; cannot decide that every stored command is loaded", fn, c.src(f.E), f.True)
					}
				}
				if okAll {
					c.OK("R29a", fn+":append", call.Pos(), "every line that decodes to a non-empty record is appended (skips: decode error, empty text)")
				} else if len(why) > 0 && !strings.HasPrefix(why[0], "unrecognised") {
					c.Viol("R29a", fn+":append", call.Pos(), "reader %s %s: valid history entries are not loaded", fn, strings.Join(why, "; "))
				}
				return true
			})
			if nApp == 0 {
				c.Viol("R29a", fn+":append", loop.Pos(), "scan loop of %s never appends the decoded record to the result: history is not loaded", fn)
			}
		}
	}
	return decoded, assigned
}

func labelName(b *ast.BranchStmt) string {
	if b.Label != nil {
		return b.Label.Name
	}
	return ""
}

// c29SkipAtom classifies a guard atom of the reader loop.
func (c *Ctx) c29SkipAtom(info *types.Info, e ast.Expr, errObj, target types.Object) string {
	b, ok := unparen(e).(*ast.BinaryExpr)
	if !ok {
		return ""
	}
	isNil := func(x ast.Expr) bool {
		id, ok := unparen(x).(*ast.Ident)
		if !ok {
			return false
		}
		_, isNilObj := info.ObjectOf(id).(*types.Nil)
		return isNilObj
	}
	isErr := func(x ast.Expr) bool {
		id, ok := unparen(x).(*ast.Ident)
		return ok && errObj != nil && info.ObjectOf(id) == errObj
	}
	if (isErr(b.X) && isNil(b.Y)) || (isErr(b.Y) && isNil(b.X)) {
		switch b.Op {
		case token.NEQ:
			return "err"
		case token.EQL:
			return "noerr"
		}
		return ""
	}
	// len(item.F) OP k   /   item.F OP ""
	textOf := func(x ast.Expr) bool {
		se, ok := unparen(x).(*ast.SelectorExpr)
		if !ok {
			return false
		}
		id, ok := unparen(se.X).(*ast.Ident)
		if !ok || info.ObjectOf(id) != target {
			return false
		}
		bt, ok := info.TypeOf(se).Underlying().(*types.Basic)
		return ok && bt.Info()&types.IsString != 0
	}
	if x, op, k, ok := cmpNorm(info, e); ok {
		if call, ok := isBuiltinCall(info, x, "len"); ok && len(call.Args) == 1 && textOf(call.Args[0]) {
			p := intPred(op, k)
			if samePredOnRange(p, func(v int64) bool { return v == 0 }, 0, 4) {
				return "empty"
			}
			if samePredOnRange(p, func(v int64) bool { return v != 0 }, 0, 4) {
				return "nonempty"
			}
		}
		return ""
	}
	for _, pair := range [][2]ast.Expr{{b.X, b.Y}, {b.Y, b.X}} {
		if textOf(pair[0]) {
			if s, ok := constString(info, pair[1]); ok && s == "" {
				switch b.Op {
				case token.EQL:
					return "empty"
				case token.NEQ:
					return "nonempty"
				}
			}
		}
	}
	return ""
}

// c29Writer checks R29b, R29c, R29e on one writing function; returns the
// marshalled struct type and the composite literal that builds it.
func (c *Ctx) c29Writer(pk *packages.Package, fd *ast.FuncDecl) (types.Type, *ast.CompositeLit) {
	info := pk.TypesInfo
	fn := fd.Name.Name
	if r := recvName(fd); r != "" {
		fn = r + "." + fn
	}
	defs := c29Defs(info, fd.Body)

	// ---- the OpenFile call and its handle
	var open *ast.CallExpr
	var fobj types.Object
	nOpen := 0
	for obj, ds := range defs {
		for _, d := range ds {
			if call, ok := unparen0(d.rhs).(*ast.CallExpr); ok && d.idx == 0 && callIs(info, call, "os", "", "OpenFile") {
				open, fobj = call, obj
				nOpen++
			}
		}
	}
	if open == nil || nOpen != 1 || len(open.Args) != 3 {
		c.Undecided("R29b", fn+":open", fd.Pos(), "%s does not bind exactly one os.OpenFile result to a local (found %d); cannot follow the file handle", fn, nOpen)
		return nil, nil
	}
	flags, ok := constInt(info, open.Args[1])
	if !ok {
		c.Undecided("R29b", fn+":open-flags", open.Pos(), "os.OpenFile flags %s are not constant", c.src(open.Args[1]))
	} else {
		osConst := func(name string) int64 {
			if p := c.All["os"]; p != nil {
				if k, ok := p.Types.Scope().Lookup(name).(*types.Const); ok {
					if v, ok := constant.Int64Val(constant.ToInt(k.Val())); ok {
						return v
					}
				}
			}
			return -1
		}
		oAppend, oCreate, oTrunc, oExcl := osConst("O_APPEND"), osConst("O_CREATE"), osConst("O_TRUNC"), osConst("O_EXCL")
		oWr, oRdWr := osConst("O_WRONLY"), osConst("O_RDWR")
		var miss []string
		if flags&oAppend == 0 {
			miss = append(miss, "O_APPEND missing: the record is written at offset 0 of the handle, overwriting the oldest entries (and two sessions overwrite each other)")
		}
		if flags&oCreate == 0 {
			miss = append(miss, "O_CREATE missing: the first command of a fresh profile is never stored")
		}
		if flags&oTrunc != 0 {
			miss = append(miss, "O_TRUNC set: every write discards all earlier history")
		}
		if flags&oExcl != 0 {
			miss = append(miss, "O_EXCL set: every write after the first fails")
		}
		if acc := flags & 3; acc != oWr && acc != oRdWr {
			miss = append(miss, "file not opened for writing")
		}
		if len(miss) == 0 {
			c.OK("R29b", fn+":open-flags", open.Pos(), "history file opened append+create, writable, not truncating (%s)", c.src(open.Args[1]))
		} else {
			c.Viol("R29b", fn+":open-flags", open.Pos(), "os.OpenFile(%s) in %s: %s", c.src(open.Args[1]), fn, strings.Join(miss, "; "))
		}
	}
	// path is a field of the receiver (the same field the constructor loads from)
	pathOK := false
	if v, _ := fieldOf(info, open.Args[0]); v != nil {
		if id := rootIdent(open.Args[0]); id != nil && id.Name == recvVar(fd) && recvVar(fd) != "" {
			pathOK = true
		}
	}
	c.Check(pathOK, "R29b", fn+":open-path", open.Pos(), "the file appended to is a field of the receiver (%s)", c.src(open.Args[0]))
	if perm, ok := constInt(info, open.Args[2]); ok {
		if perm&0o600 == 0o600 {
			c.OK("R29b", fn+":open-perm", open.Pos(), "a newly created history file is readable and writable by its owner (%#o)", perm)
		} else {
			c.Viol("R29b", fn+":open-perm", open.Pos(), "os.OpenFile creates the history file with mode %#o, without owner read+write: after the first command creates the file, later sessions cannot append to it or cannot load it", perm)
		}
	} else {
		c.Undecided("R29b", fn+":open-perm", open.Pos(), "file mode %s is not constant", c.src(open.Args[2]))
	}

	// ---- writes on the handle
	type wr struct {
		call *ast.CallExpr
		rec  c29rec
	}
	var writes []wr
	for _, call := range calls(fd.Body, true) {
		o := callee(info, call)
		if o == nil {
			continue
		}
		if c29RecvObj(info, call) == fobj && (objIs(o, "os", "File", "Write") || objIs(o, "os", "File", "WriteString")) && len(call.Args) == 1 {
			c29UsePos = call.Pos()
			writes = append(writes, wr{call, c29Classify(c.c29Bytes(info, defs, call.Args[0], 0))})
			c29UsePos = token.NoPos
			continue
		}
		// fmt.Fprintf(handle, <const format>, …): one Write of the formatted bytes
		if callIs(info, call, "fmt", "", "Fprintf") && len(call.Args) >= 2 {
			if id, ok := unparen(call.Args[0]).(*ast.Ident); ok && info.ObjectOf(id) == fobj {
				c29UsePos = call.Pos()
				writes = append(writes, wr{call, c29Classify(c.c29Fprintf(info, defs, call))})
				c29UsePos = token.NoPos
				continue
			}
		}
		// other ways of writing to / moving within the handle
		usesHandle := false
		for _, a := range call.Args {
			if id, ok := unparen(a).(*ast.Ident); ok && info.ObjectOf(id) == fobj {
				usesHandle = true
			}
		}
		if c29RecvObj(info, call) == fobj {
			switch o.Name() {
			case "Close", "Sync", "Stat", "Name", "Fd", "ReadAt", "Read", "Chmod":
			case "WriteAt", "Seek", "Truncate", "ReadFrom":
				c.Viol("R29b", fn+":handle-"+o.Name(), call.Pos(), "%s calls (*os.File).%s on the history handle: the file is no longer append-only (earlier entries can be overwritten or dropped)", fn, o.Name())
			default:
				c.Undecided("R29b", fn+":handle-"+o.Name(), call.Pos(), "%s calls %s on the history handle; effect on the file not modelled", fn, o.Name())
			}
		} else if usesHandle {
			c.Undecided("R29b", fn+":handle-escapes", call.Pos(), "history handle passed to %s; writes through it are not modelled", objName(o))
		}
	}
	var record *wr
	nRec := 0
	for i := range writes {
		w := &writes[i]
		switch {
		case w.rec.undecided != "":
			c.Undecided("R29b", fn+":write#"+itoa(i+1), w.call.Pos(), "%s", w.rec.undecided)
		case w.rec.isRecord:
			nRec++
			record = w
		case w.rec.delimOnly:
			c.OK("R29b", fn+":delimiter-write", w.call.Pos(), "constant delimiter write")
		default:
			c.Viol("R29b", fn+":write#"+itoa(i+1), w.call.Pos(), "%s writes %s to the history file: %s", fn, c.src(w.call.Args[0]), w.rec.problem)
		}
	}
	nUnd := 0
	for _, w := range writes {
		if w.rec.undecided != "" {
			nUnd++
		}
	}
	switch {
	case nRec == 0 && nUnd > 0:
		// already reported as undecided: the record write could not be identified
	case nRec == 0:
		c.Viol("R29b", fn+":record-write", fd.Pos(), "%s never writes the marshalled record to the history file: commands are not persisted", fn)
	case nRec > 1:
		c.Viol("R29b", fn+":record-write", record.call.Pos(), "%s writes the record %d times", fn, nRec)
	default:
		switch {
		case record.rec.problem != "":
			c.Viol("R29b", fn+":record-write", record.call.Pos(), "%s: %s", fn, record.rec.problem)
		case !record.rec.trailingNL:
			c.Viol("R29b", fn+":record-write", record.call.Pos(), "%s writes the JSON record without its terminating newline in the same write (%s): a crash (or another session's append) between the record and a separately written terminator glues two records onto one line, and both are lost on reload", fn, c.src(record.call.Args[0]))
		default:
			c.OK("R29b", fn+":record-write", record.call.Pos(), "one write carries <json.Marshal result> + newline")
		}
	}

	if record != nil {
		c.c29Framing(info, defs, fd, fn, fobj, record.call, record.rec)
	}
	return c.c29Marshalled(info, defs, fd)
}

func (c *Ctx) c29Framing(info *types.Info, defs c29defs, fd *ast.FuncDecl, fn string, fobj types.Object, rcall *ast.CallExpr, rec c29rec) {
	record := &struct {
		call *ast.CallExpr
		rec  c29rec
	}{rcall, rec}
	// ---- the write error is returned
	c.c29WriteErr(info, fd, fn, record.call)

	// ---- R29c framing
	switch {
	case record.rec.leadingNL:
		c.OK("R29c", fn+":torn-tail", record.call.Pos(), "record begins with a newline: a torn previous record is terminated before this one")
	case c.c29TailInspected(info, defs, fd, fobj, record.call):
		c.OK("R29c", fn+":torn-tail", record.call.Pos(), "file tail is inspected and a newline emitted first when the last byte is not a newline")
	default:
		c.Viol("R29c", fn+":torn-tail", record.call.Pos(), "%s appends %s directly after whatever the file ends with: if the previous write was torn by a crash (no trailing newline) the new record continues that line, the line fails to decode, and the entry written AFTER the crash is lost as well", fn, c.src(record.call.Args[0]))
	}

	// ---- R29e gate polarity
	c.c29Gate(info, defs, fd, fn, record.call)
}

// c29Marshalled: the struct type handed to json.Marshal and the literal building it.
func (c *Ctx) c29Marshalled(info *types.Info, defs c29defs, fd *ast.FuncDecl) (types.Type, *ast.CompositeLit) {
	var mt types.Type
	var lit *ast.CompositeLit
	for _, call := range calls(fd.Body, false) {
		if (callIs(info, call, "encoding/json", "", "Marshal") || callIs(info, call, "encoding/json", "", "MarshalIndent")) && len(call.Args) >= 1 {
			mt = info.TypeOf(call.Args[0])
			arg := unparen(call.Args[0])
			if u, ok := arg.(*ast.UnaryExpr); ok && u.Op == token.AND {
				arg = unparen(u.X)
			}
			if d, ok := defs.single(info, arg); ok && d.idx < 0 {
				arg = unparen(d.rhs)
				if u, ok := arg.(*ast.UnaryExpr); ok && u.Op == token.AND {
					arg = unparen(u.X)
				}
			}
			if cl, ok := arg.(*ast.CompositeLit); ok {
				lit = cl
			}
		}
	}
	return mt, lit
}

// c29WriteErr: the error result of the record write reaches the function's
// error result.
func (c *Ctx) c29WriteErr(info *types.Info, fd *ast.FuncDecl, fn string, wcall *ast.CallExpr) {
	key := fn + ":write-error"
	var errObj types.Object
	var inIfInit *ast.IfStmt
	blank := false
	found := false
	walkStack(fd.Body, func(n ast.Node, stack []ast.Node) bool {
		as, ok := n.(*ast.AssignStmt)
		if !ok || len(as.Rhs) != 1 || unparen(as.Rhs[0]) != ast.Expr(wcall) || len(as.Lhs) != 2 {
			return true
		}
		found = true
		if id, ok := as.Lhs[1].(*ast.Ident); ok {
			if id.Name == "_" {
				blank = true
			} else {
				errObj = info.ObjectOf(id)
			}
		}
		if len(stack) >= 2 {
			if is, ok := stack[len(stack)-2].(*ast.IfStmt); ok && is.Init == ast.Stmt(as) {
				inIfInit = is
			}
		}
		return true
	})
	if !found || blank || errObj == nil {
		c.Viol("R29b", key, wcall.Pos(), "%s discards the error of the record write: a failed or short write is reported as success and the command silently never reaches the history file", fn)
		return
	}
	// some return after the write returns errObj as its last result, with no
	// reassignment of errObj between the write and that return
	returned := false
	var scope ast.Node = fd.Body
	if inIfInit != nil {
		scope = inIfInit
	}
	ast.Inspect(scope, func(n ast.Node) bool {
		rs, ok := n.(*ast.ReturnStmt)
		if !ok || rs.Pos() < wcall.End() || len(rs.Results) == 0 {
			return true
		}
		if id, ok := unparen(rs.Results[len(rs.Results)-1]).(*ast.Ident); ok && info.ObjectOf(id) == errObj {
			clobbered := false
			ast.Inspect(fd.Body, func(m ast.Node) bool {
				if as, ok := m.(*ast.AssignStmt); ok && as.Pos() > wcall.End() && as.End() < rs.Pos() {
					for _, l := range as.Lhs {
						if lid, ok := l.(*ast.Ident); ok && info.ObjectOf(lid) == errObj {
							clobbered = true
						}
					}
				}
				return true
			})
			if !clobbered {
				returned = true
			}
		}
		return true
	})
	if returned {
		c.OK("R29b", key, wcall.Pos(), "the record write's error is returned to the caller")
	} else {
		c.Viol("R29b", key, wcall.Pos(), "%s does not return the error of the record write (overwritten or dropped before the return): a failed write is reported as success", fn)
	}
}

// c29TailInspected recognises the tail-inspection idiom: the function reads
// from the history file (handle.ReadAt/Read, or os.ReadFile), compares a byte
// with '\n', and in the not-a-newline arm writes a newline-leading payload to
// the handle or prepends one to the record before the record write.
func (c *Ctx) c29TailInspected(info *types.Info, defs c29defs, fd *ast.FuncDecl, fobj types.Object, wcall *ast.CallExpr) bool {
	reads := false
	for _, call := range calls(fd.Body, false) {
		o := callee(info, call)
		if o == nil || call.Pos() > wcall.Pos() {
			continue
		}
		if (objIs(o, "os", "File", "ReadAt") || objIs(o, "os", "File", "Read")) || objIs(o, "os", "", "ReadFile") {
			reads = true
		}
	}
	if !reads {
		return false
	}
	ok := false
	walkStack(fd.Body, func(n ast.Node, stack []ast.Node) bool {
		if n.Pos() > wcall.Pos() {
			return true
		}
		emits := false
		switch s := n.(type) {
		case *ast.CallExpr:
			if o := callee(info, s); o != nil && c29RecvObj(info, s) == fobj && (objIs(o, "os", "File", "Write") || objIs(o, "os", "File", "WriteString")) && len(s.Args) == 1 && s != wcall {
				r := c29Classify(c.c29Bytes(info, defs, s.Args[0], 0))
				emits = r.delimOnly
			}
		case *ast.AssignStmt:
			// b = append([]byte{'\n'}, b...) — prepending to a variable the record write uses
			if len(s.Lhs) == 1 && len(s.Rhs) == 1 {
				if id, isId := s.Lhs[0].(*ast.Ident); isId && mentions(info, wcall, info.ObjectOf(id)) {
					if ap, isAp := isBuiltinCall(info, s.Rhs[0], "append"); isAp && len(ap.Args) >= 2 {
						ps := c.c29Bytes(info, c29defs{}, ap.Args[0], 0)
						if len(ps) == 1 && ps[0].kind == "const" && strings.HasPrefix(ps[0].val, "\n") {
							emits = true
						}
					}
				}
			}
		}
		if !emits {
			return true
		}
		for _, f := range factsOf(guardsAt(info, stack)) {
			b, isB := unparen(f.E).(*ast.BinaryExpr)
			if !isB {
				continue
			}
			for _, side := range []ast.Expr{b.X, b.Y} {
				if v, isC := constInt(info, side); isC && v == '\n' {
					if (b.Op == token.NEQ && f.True) || (b.Op == token.EQL && !f.True) {
						ok = true
					}
				}
			}
		}
		return true
	})
	return ok
}

// c29Gate: R29e.
func (c *Ctx) c29Gate(info *types.Info, defs c29defs, fd *ast.FuncDecl, fn string, wcall *ast.CallExpr) {
	const setting = "history-write-enabled"
	// is `e` the boolean value of the setting?
	var isSetting func(e ast.Expr, depth int) bool
	isSetting = func(e ast.Expr, depth int) bool {
		e = unparen(e)
		if depth > 4 {
			return false
		}
		if ta, ok := e.(*ast.TypeAssertExpr); ok {
			return isSetting(ta.X, depth+1)
		}
		if d, ok := defs.single(info, e); ok {
			if d.idx < 0 {
				return isSetting(d.rhs, depth+1)
			}
			if call, ok := unparen(d.rhs).(*ast.CallExpr); ok && d.idx == 0 {
				if o := callee(info, call); o != nil && objIs(o, mx("config"), "Config", "Get") && len(call.Args) >= 2 {
					if s, ok := constString(info, call.Args[1]); ok && s == setting {
						return true
					}
				}
			}
		}
		return false
	}
	n, nGate := 0, 0
	walkStack(fd.Body, func(nd ast.Node, stack []ast.Node) bool {
		if _, ok := nd.(*ast.FuncLit); ok {
			return false
		}
		rs, ok := nd.(*ast.ReturnStmt)
		if !ok || rs.Pos() > wcall.Pos() {
			return true
		}
		n++
		facts := factsOf(guardsAt(info, stack))
		justified, contradiction := "", ""
		errSrc := ""
		for _, f := range facts {
			if b, ok := unparen(f.E).(*ast.BinaryExpr); ok && (b.Op == token.NEQ || b.Op == token.EQL) {
				var other ast.Expr
				if id, ok := unparen(b.Y).(*ast.Ident); ok {
					if _, isNil := info.ObjectOf(id).(*types.Nil); isNil {
						other = b.X
					}
				}
				if id, ok := unparen(b.X).(*ast.Ident); ok && other == nil {
					if _, isNil := info.ObjectOf(id).(*types.Nil); isNil {
						other = b.Y
					}
				}
				if other != nil && types.Identical(info.TypeOf(other), types.Universe.Lookup("error").Type()) {
					if (b.Op == token.NEQ) == f.True {
						justified = "error path"
						// name the error by the call that produced it (latest definition before the return)
						if id, ok := unparen(other).(*ast.Ident); ok {
							var best c29def
							for _, d := range defs[info.ObjectOf(id)] {
								if d.rhs != nil && d.pos < rs.Pos() && d.pos >= best.pos {
									best = d
								}
							}
							if call, ok := unparen0(best.rhs).(*ast.CallExpr); ok {
								errSrc = calleeName(info, call)
							}
						}
					}
					continue
				}
			}
			ge, gtruth := c29NormBool(info, f.E, f.True)
			if isSetting(ge, 0) {
				nGate++
				if !gtruth {
					justified = setting + " is false"
				} else {
					contradiction = "returns without writing although " + setting + " is TRUE (and writes when it is false): with the default setting no command is ever stored"
				}
				continue
			}
		}
		key := fn + ":early-return:"
		switch {
		case justified == "error path":
			key += "error-of:" + errSrc
		case justified != "" || contradiction != "":
			key += "gate"
		default:
			key += "other#" + itoa(n)
		}
		switch {
		case justified != "":
			c.OK("R29e", key, rs.Pos(), "return before the write: %s", justified)
		case contradiction != "":
			c.Viol("R29e", key, rs.Pos(), "%s %s", fn, contradiction)
		default:
			c.Undecided("R29e", key, rs.Pos(), "%s returns before the record write under a condition that is neither an error test nor the %s setting; cannot decide that enabled sessions always store the command", fn, setting)
		}
		return true
	})
	c.MinCount("R29e", "returns before the record write in "+fn, n, 3)
	c.MinCount("R29e", "tests of "+setting+" in "+fn, nGate, 1)
}

// c29NoRewrite: package-wide — nothing else mutates files.
func (c *Ctx) c29NoRewrite(pk *packages.Package, writers []*ast.FuncDecl) {
	info := pk.TypesInfo
	isWriter := map[*ast.FuncDecl]bool{}
	for _, w := range writers {
		isWriter[w] = true
	}
	mut := map[string]bool{"Create": true, "CreateTemp": true, "WriteFile": true, "Truncate": true, "Remove": true, "RemoveAll": true, "Rename": true, "Link": true, "Symlink": true}
	n := 0
	eachFunc(pk, func(fd *ast.FuncDecl) {
		for _, call := range calls(fd.Body, true) {
			o := callee(info, call)
			if o == nil || o.Pkg() == nil {
				continue
			}
			p := o.Pkg().Path()
			if p != "os" && p != "io/ioutil" {
				continue
			}
			fnObj, ok := o.(*types.Func)
			if !ok {
				continue
			}
			if sig := fnObj.Type().(*types.Signature); sig.Recv() != nil {
				continue // methods on the handle are handled per writer
			}
			n++
			switch {
			case mut[o.Name()]:
				c.Viol("R29b", "pkg:"+fd.Name.Name+":"+p+"."+o.Name(), call.Pos(), "%s calls %s.%s: the history file is no longer append-only — a crash during this call can lose entries written earlier", fd.Name.Name, p, o.Name())
			case o.Name() == "OpenFile" && c.c29ReadOnlyOpen(info, call):
				c.OK("R29b", "pkg:"+fd.Name.Name+":"+p+"."+o.Name(), call.Pos(), "read-only os.OpenFile (same as os.Open) does not modify a file")
			case o.Name() == "OpenFile" && !isWriter[fd]:
				c.Undecided("R29b", "pkg:"+fd.Name.Name+":os.OpenFile", call.Pos(), "additional os.OpenFile outside the recognised writer")
			case o.Name() == "OpenFile":
				c.OK("R29b", "pkg:"+fd.Name.Name+":"+p+"."+o.Name(), call.Pos(), "the writer's os.OpenFile (flags checked under %s:open-flags)", fd.Name.Name)
			default:
				c.OK("R29b", "pkg:"+fd.Name.Name+":"+p+"."+o.Name(), call.Pos(), "%s.%s does not modify a file", p, o.Name())
			}
		}
	})
	c.MinCount("R29b", "os calls in shell/history", n, 2)
}

// c29Schema: R29d.
func (c *Ctx) c29Schema(pk *packages.Package, rt types.Type, readerAssigned map[string]bool, wt types.Type, wlit *ast.CompositeLit, wfd *ast.FuncDecl) {
	info := pk.TypesInfo
	if rt == nil || wt == nil {
		c.Lost("R29d", "types", "could not determine the struct decoded by the reader (%v) or marshalled by the writer (%v)", rt, wt)
		return
	}
	rkeys, remb := c29JSONKeys(rt)
	wkeys, wemb := c29JSONKeys(wt)
	if remb || wemb || structOf(rt) == nil || structOf(wt) == nil {
		c.Undecided("R29d", "types", token.NoPos, "history record types are not plain structs without embedding (reader %s, writer %s)", rt, wt)
		return
	}
	n := 0
	var textKey *c29key
	for i := range rkeys {
		rk := rkeys[i]
		if readerAssigned[rk.field.Name()] {
			c.OK("R29d", "field:"+rk.field.Name(), rk.field.Pos(), "reader field %s is set by the reader itself", rk.field.Name())
			n++
			continue
		}
		n++
		var match *c29key
		for j := range wkeys {
			if strings.EqualFold(wkeys[j].name, rk.name) {
				match = &wkeys[j]
			}
		}
		switch {
		case match == nil:
			var have []string
			for _, w := range wkeys {
				have = append(have, w.name)
			}
			c.Viol("R29d", "field:"+rk.field.Name(), rk.field.Pos(), "reader decodes JSON key %q into %s.%s but the writer only produces keys %v: the field is always zero after reload (for the command text that means every entry is skipped as empty)", rk.name, namedName(rt), rk.field.Name(), have)
		case !types.Identical(match.field.Type(), rk.field.Type()):
			c.Viol("R29d", "field:"+rk.field.Name(), rk.field.Pos(), "JSON key %q is written as %s but decoded as %s", rk.name, match.field.Type(), rk.field.Type())
		default:
			c.OK("R29d", "field:"+rk.field.Name(), rk.field.Pos(), "JSON key %q: writer field %s -> reader field %s", match.name, match.field.Name(), rk.field.Name())
			if bt, ok := rk.field.Type().Underlying().(*types.Basic); ok && bt.Info()&types.IsString != 0 {
				textKey = match
			}
		}
	}
	c.MinCount("R29d", "reader fields", n, 3)
	// the writer's text value derives from the function parameter
	if textKey != nil && wlit != nil && wfd != nil {
		defs := c29Defs(info, wfd.Body)
		var val ast.Expr
		for _, el := range wlit.Elts {
			if kv, ok := el.(*ast.KeyValueExpr); ok {
				if id, ok := kv.Key.(*ast.Ident); ok && id.Name == textKey.field.Name() {
					val = kv.Value
				}
			}
		}
		if val == nil {
			c.Viol("R29d", "writer:text-value", wlit.Pos(), "the marshalled record literal does not set %s: the command text is not written", textKey.field.Name())
			return
		}
		fromParam := false
		var follow func(e ast.Expr, depth int)
		follow = func(e ast.Expr, depth int) {
			if depth > 5 || fromParam {
				return
			}
			ast.Inspect(e, func(n ast.Node) bool {
				id, ok := n.(*ast.Ident)
				if !ok {
					return true
				}
				if isParam(info, wfd, id) {
					if bt, ok := info.TypeOf(id).Underlying().(*types.Basic); ok && bt.Info()&types.IsString != 0 {
						fromParam = true
					}
					return false
				}
				if d, ok := defs.single(info, id); ok && d.idx < 0 {
					follow(d.rhs, depth+1)
				}
				return true
			})
		}
		follow(val, 0)
		if fromParam {
			c.OK("R29d", "writer:text-value", val.Pos(), "the text written under key %q (%s) is derived from the writer's string parameter", textKey.name, c.src(val))
		} else {
			c.Viol("R29d", "writer:text-value", val.Pos(), "the text written under key %q is %s, which does not derive from the writer's string parameter: the command just entered is not what is stored", textKey.name, c.src(val))
		}
	} else {
		c.Undecided("R29d", "writer:text-value", token.NoPos, "cannot locate the record literal / text key of the writer")
	}
}

// c29NormBool reduces `x == false`, `x != true`, `false == x`, `!x` … to (x, truth).
func c29NormBool(info *types.Info, e ast.Expr, truth bool) (ast.Expr, bool) {
	for i := 0; i < 8; i++ {
		e = unparen(e)
		if u, ok := e.(*ast.UnaryExpr); ok && u.Op == token.NOT {
			e, truth = u.X, !truth
			continue
		}
		b, ok := e.(*ast.BinaryExpr)
		if !ok || (b.Op != token.EQL && b.Op != token.NEQ) {
			return e, truth
		}
		if k, isK := constBool(info, b.Y); isK {
			e, truth = b.X, truth == ((b.Op == token.EQL) == k)
			continue
		}
		if k, isK := constBool(info, b.X); isK {
			e, truth = b.Y, truth == ((b.Op == token.EQL) == k)
			continue
		}
		return e, truth
	}
	return e, truth
}

// c29OsConst: value of an integer constant of package os (-1 when unknown).
func (c *Ctx) c29OsConst(name string) int64 {
	if p := c.All["os"]; p != nil {
		if k, ok := p.Types.Scope().Lookup(name).(*types.Const); ok {
			if v, ok := constant.Int64Val(constant.ToInt(k.Val())); ok {
				return v
			}
		}
	}
	return -1
}

// c29ReadOnlyOpen: os.OpenFile(name, <constant flags without write access,
// O_APPEND, O_CREATE, O_TRUNC>, perm) — the same as os.Open(name).
func (c *Ctx) c29ReadOnlyOpen(info *types.Info, call *ast.CallExpr) bool {
	if !callIs(info, call, "os", "", "OpenFile") || len(call.Args) != 3 {
		return false
	}
	flags, ok := constInt(info, call.Args[1])
	if !ok {
		return false
	}
	mask := int64(0)
	for _, n := range []string{"O_WRONLY", "O_RDWR", "O_APPEND", "O_CREATE", "O_TRUNC"} {
		v := c.c29OsConst(n)
		if v < 0 {
			return false
		}
		mask |= v
	}
	return flags&mask == 0
}

// c29ScanBreakHead: st is `if !sc.Scan() { break }` for the given scanner — the
// loop condition of `for sc.Scan()` written out as the first statement of `for {`.
func c29ScanBreakHead(info *types.Info, st ast.Stmt, sc types.Object) bool {
	is, ok := st.(*ast.IfStmt)
	if !ok || is.Init != nil || is.Else != nil || len(is.Body.List) != 1 {
		return false
	}
	br, ok := is.Body.List[0].(*ast.BranchStmt)
	if !ok || br.Tok != token.BREAK || br.Label != nil {
		return false
	}
	u, ok := unparen(is.Cond).(*ast.UnaryExpr)
	if !ok || u.Op != token.NOT {
		return false
	}
	call, ok := unparen(u.X).(*ast.CallExpr)
	return ok && callIs(info, call, "bufio", "Scanner", "Scan") && c29RecvObj(info, call) == sc
}

// c29Fprintf evaluates the bytes fmt.Fprintf(w, format, args…) writes, for a
// constant format whose only verbs are %s (string / []byte operand) and %%.
func (c *Ctx) c29Fprintf(info *types.Info, defs c29defs, call *ast.CallExpr) []c29part {
	unknown := []c29part{{kind: "unknown", src: c.src(call)}}
	format, ok := constString(info, call.Args[1])
	if !ok {
		return unknown
	}
	args := call.Args[2:]
	var out []c29part
	lit := ""
	flush := func() {
		if lit != "" {
			out = append(out, c29part{kind: "const", val: lit})
			lit = ""
		}
	}
	for i := 0; i < len(format); i++ {
		if format[i] != '%' {
			lit += string(format[i])
			continue
		}
		if i+1 >= len(format) {
			return unknown
		}
		i++
		switch format[i] {
		case '%':
			lit += "%"
		case 's':
			if len(args) == 0 {
				return unknown
			}
			a := args[0]
			args = args[1:]
			switch u := info.TypeOf(a).Underlying().(type) {
			case *types.Basic:
				if u.Info()&types.IsString == 0 {
					return unknown
				}
			case *types.Slice:
				if b, isB := u.Elem().Underlying().(*types.Basic); !isB || b.Kind() != types.Byte {
					return unknown
				}
			default:
				return unknown
			}
			flush()
			out = append(out, c.c29Bytes(info, defs, a, 0)...)
		default:
			return unknown
		}
	}
	if len(args) != 0 {
		return unknown
	}
	flush()
	return out
}
