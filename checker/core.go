package main

// Core framework: loading /repo, obligation bookkeeping, known-findings,
// evidence and report writing. No rule lives here.

import (
	"bufio"
	"encoding/json"
	"fmt"
	"go/ast"
	"go/token"
	"go/types"
	"os"
	"path/filepath"
	"sort"
	"strings"
	"time"

	"golang.org/x/tools/go/packages"
	"golang.org/x/tools/go/ssa"
	"golang.org/x/tools/go/ssa/ssautil"
)

const modPath = "github.com/lmorg/murex"

type Status string

const (
	StOK        Status = "ok"
	StViolation Status = "violation"
	StUndecided Status = "undecided"
	StLost      Status = "anchor-lost"
)

// Obligation is one decided (or undecidable) instance of a rule.
type Obligation struct {
	Rule   string `json:"rule"`
	Key    string `json:"key"` // rule + construct, never a line number
	Pos    string `json:"pos"` // file:line as found on this run
	Status Status `json:"status"`
	Detail string `json:"detail,omitempty"`
}

type Ctx struct {
	Prop       string
	Tier       string
	Repo       string
	VerifD     string
	Tags       string
	Env        []string
	Fset       *token.FileSet
	Roots      []*packages.Package
	All        map[string]*packages.Package
	Obls       []Obligation
	Infos      []string
	Rules      map[string]string // rule id -> statement of the rule
	ruleSeq    []string
	Assume     []string
	Explain    string
	Overlay    map[string][]byte
	NoEvidence bool

	prog    *ssa.Program
	ssaPkgs map[string]*ssa.Package
	start   time.Time
	configs []string
	nfuncs  int
}

func (c *Ctx) pos(p token.Pos) string {
	if !p.IsValid() {
		return "-"
	}
	pp := c.Fset.Position(p)
	f := pp.Filename
	if rel, err := filepath.Rel(c.Repo, f); err == nil && !strings.HasPrefix(rel, "..") {
		f = rel
	}
	return fmt.Sprintf("%s:%d", f, pp.Line)
}

func (c *Ctx) add(rule, key string, p token.Pos, st Status, detail string) {
	c.Obls = append(c.Obls, Obligation{Rule: rule, Key: rule + "/" + key, Pos: c.pos(p), Status: st, Detail: detail})
}
func (c *Ctx) OK(rule, key string, p token.Pos, f string, a ...any) {
	c.add(rule, key, p, StOK, fmt.Sprintf(f, a...))
}
func (c *Ctx) Viol(rule, key string, p token.Pos, f string, a ...any) {
	c.add(rule, key, p, StViolation, fmt.Sprintf(f, a...))
}
func (c *Ctx) Undecided(rule, key string, p token.Pos, f string, a ...any) {
	c.add(rule, key, p, StUndecided, fmt.Sprintf(f, a...))
}
func (c *Ctx) Lost(rule, key string, f string, a ...any) {
	c.add(rule, key, token.NoPos, StLost, fmt.Sprintf(f, a...))
}

// Check records ok or violation depending on cond.
func (c *Ctx) Check(cond bool, rule, key string, p token.Pos, f string, a ...any) bool {
	if cond {
		c.OK(rule, key, p, f, a...)
	} else {
		c.Viol(rule, key, p, f, a...)
	}
	return cond
}
func (c *Ctx) Info(f string, a ...any) { c.Infos = append(c.Infos, fmt.Sprintf(f, a...)) }

// Rule registers the human statement of a rule (shown in evidence).
func (c *Ctx) Rule(id, text string) {
	if c.Rules == nil {
		c.Rules = map[string]string{}
	}
	if old, ok := c.Rules[id]; !ok {
		c.ruleSeq = append(c.ruleSeq, id)
	} else if old != text {
		fmt.Fprintf(os.Stderr, "RULE-ID-CLASH %s %s\n", c.Prop, id)
	}
	c.Rules[id] = text
}

// MinCount is the vacuity guard: a rule that matched fewer instances than were
// confirmed by hand has lost its anchor.
func (c *Ctx) MinCount(rule, what string, got, min int) {
	if got < min {
		c.Lost(rule, "count:"+what, "matched %d instances of %s, expected at least %d (confirmed by hand on the pinned tree) — the anchor moved; this is a statement about the checker's sight, not about behaviour", got, what, min)
	} else {
		c.OK(rule, "count:"+what, token.NoPos, "%d instances of %s (min %d)", got, what, min)
	}
}

// ---------------------------------------------------------------- loading

func (c *Ctx) Load(patterns ...string) {
	cfg := &packages.Config{
		Mode: packages.NeedName | packages.NeedFiles | packages.NeedCompiledGoFiles | packages.NeedImports |
			packages.NeedDeps | packages.NeedTypes | packages.NeedSyntax | packages.NeedTypesInfo | packages.NeedTypesSizes | packages.NeedModule,
		Dir:     c.Repo,
		Fset:    c.Fset,
		Tests:   false,
		Overlay: c.Overlay,
		Env:     append(os.Environ(), c.Env...),
	}
	if c.Tags != "" {
		cfg.BuildFlags = []string{"-tags=" + c.Tags}
	}
	var pats []string
	for _, p := range patterns {
		if p == "./..." || strings.HasPrefix(p, "./") || p == "." {
			pats = append(pats, p)
		} else {
			pats = append(pats, modPath+"/"+p)
		}
	}
	pkgs, err := packages.Load(cfg, pats...)
	if err != nil {
		fatal("load: %v", err)
	}
	if len(pkgs) == 0 {
		fatal("load: zero packages for %v", pats)
	}
	nerr := 0
	packages.Visit(pkgs, nil, func(p *packages.Package) {
		for _, e := range p.Errors {
			// errors in murex packages are fatal; (none are expected in deps either)
			fmt.Fprintf(os.Stderr, "load error: %s: %v\n", p.PkgPath, e)
			nerr++
		}
		c.All[p.PkgPath] = p
	})
	if nerr > 0 {
		fatal("load: %d package errors — the tree does not type-check, no verdict", nerr)
	}
	c.Roots = append(c.Roots, pkgs...)
	c.configs = append(c.configs, fmt.Sprintf("patterns=%v tags=%q env=%v roots=%d all=%d", patterns, c.Tags, c.Env, len(pkgs), len(c.All)))
}

// Pkg returns a loaded murex package by module-relative path ("" = main).
func (c *Ctx) Pkg(rel string) *packages.Package {
	p := modPath
	if rel != "" {
		p += "/" + rel
	}
	if pk, ok := c.All[p]; ok {
		return pk
	}
	return nil
}

// MurexPkgs returns all loaded packages of the murex module, sorted.
func (c *Ctx) MurexPkgs() []*packages.Package {
	var out []*packages.Package
	for path, p := range c.All {
		if path == modPath || strings.HasPrefix(path, modPath+"/") {
			if len(p.Syntax) > 0 {
				out = append(out, p)
			}
		}
	}
	sort.Slice(out, func(i, j int) bool { return out[i].PkgPath < out[j].PkgPath })
	return out
}

// SSA builds (once) SSA for all loaded packages; bodies are built for murex
// packages and every dependency (needed by the call graph).
func (c *Ctx) SSA() *ssa.Program {
	if c.prog != nil {
		return c.prog
	}
	var all []*packages.Package
	for _, p := range c.All {
		all = append(all, p)
	}
	sort.Slice(all, func(i, j int) bool { return all[i].PkgPath < all[j].PkgPath })
	prog, pkgs := ssautil.Packages(all, ssa.InstantiateGenerics)
	c.ssaPkgs = map[string]*ssa.Package{}
	for i, p := range pkgs {
		if p != nil {
			c.ssaPkgs[all[i].PkgPath] = p
		}
	}
	c.prog = prog
	return prog
}

// SSAPkg returns the built SSA package for a murex-relative path.
func (c *Ctx) SSAPkg(rel string) *ssa.Package {
	c.SSA()
	p := modPath
	if rel != "" {
		p += "/" + rel
	}
	sp := c.ssaPkgs[p]
	if sp != nil {
		sp.Build()
	}
	return sp
}

func (c *Ctx) BuildAllSSA() *ssa.Program {
	c.SSA().Build()
	return c.prog
}

// ---------------------------------------------------------------- lookup helpers

// FuncDecl finds a function or method declaration. recv "" for plain funcs;
// recv is the bare receiver type name (pointerness ignored).
func (c *Ctx) FuncDecl(pkgRel, recv, name string) (*ast.FuncDecl, *packages.Package) {
	pk := c.Pkg(pkgRel)
	if pk == nil {
		return nil, nil
	}
	for _, f := range pk.Syntax {
		for _, d := range f.Decls {
			fd, ok := d.(*ast.FuncDecl)
			if !ok || fd.Name.Name != name {
				continue
			}
			if recvName(fd) == recv {
				return fd, pk
			}
		}
	}
	return nil, pk
}

// MustFunc is FuncDecl that records anchor-lost when missing.
func (c *Ctx) MustFunc(rule, pkgRel, recv, name string) (*ast.FuncDecl, *packages.Package) {
	fd, pk := c.FuncDecl(pkgRel, recv, name)
	if fd == nil || fd.Body == nil {
		q := name
		if recv != "" {
			q = "(" + recv + ")." + name
		}
		c.Lost(rule, "func:"+pkgRel+"."+q, "function %s.%s not found in the loaded build — anchor moved or renamed; the rule cannot see its subject", pkgRel, q)
		return nil, pk
	}
	c.nfuncs++
	return fd, pk
}

func recvName(fd *ast.FuncDecl) string {
	if fd.Recv == nil || len(fd.Recv.List) == 0 {
		return ""
	}
	t := fd.Recv.List[0].Type
	for {
		switch x := t.(type) {
		case *ast.StarExpr:
			t = x.X
			continue
		case *ast.IndexExpr:
			t = x.X
			continue
		case *ast.IndexListExpr:
			t = x.X
			continue
		case *ast.ParenExpr:
			t = x.X
			continue
		case *ast.Ident:
			return x.Name
		}
		return ""
	}
}

func funcKey(pkgRel string, fd *ast.FuncDecl) string {
	r := recvName(fd)
	if r != "" {
		return pkgRel + ".(" + r + ")." + fd.Name.Name
	}
	return pkgRel + "." + fd.Name.Name
}

// SSAFunc returns the SSA function for a declaration.
func (c *Ctx) SSAFunc(pk *packages.Package, fd *ast.FuncDecl) *ssa.Function {
	c.SSA()
	sp := c.ssaPkgs[pk.PkgPath]
	if sp == nil {
		return nil
	}
	sp.Build()
	obj, _ := pk.TypesInfo.Defs[fd.Name].(*types.Func)
	if obj == nil {
		return nil
	}
	return c.prog.FuncValue(obj)
}

func relPkg(path string) string {
	if path == modPath {
		return ""
	}
	return strings.TrimPrefix(path, modPath+"/")
}

// ---------------------------------------------------------------- known findings

type knownEntry struct {
	Prop, Key, What string
}

func loadKnown(path string) (known []knownEntry, fixed []string) {
	f, err := os.Open(path)
	if err != nil {
		return nil, nil
	}
	defer f.Close()
	sc := bufio.NewScanner(f)
	sc.Buffer(make([]byte, 1<<20), 1<<20)
	for sc.Scan() {
		line := strings.TrimSpace(sc.Text())
		if line == "" || strings.HasPrefix(line, "#") {
			continue
		}
		if strings.HasPrefix(line, "fixed:") {
			fixed = append(fixed, line)
			continue
		}
		if !strings.HasPrefix(line, "known:") {
			continue
		}
		// known: property=C10 key=<key> :: <what fails>
		rest := strings.TrimSpace(strings.TrimPrefix(line, "known:"))
		parts := strings.SplitN(rest, " :: ", 2)
		what := ""
		if len(parts) == 2 {
			what = parts[1]
		}
		var e knownEntry
		e.What = what
		for _, f := range strings.Fields(parts[0]) {
			if strings.HasPrefix(f, "property=") {
				e.Prop = strings.TrimPrefix(f, "property=")
			}
		}
		if i := strings.Index(parts[0], "key="); i >= 0 {
			e.Key = strings.TrimSpace(parts[0][i+4:])
		}
		if e.Prop != "" && e.Key != "" {
			known = append(known, e)
		}
	}
	return
}

// ---------------------------------------------------------------- finishing

func fatal(f string, a ...any) {
	fmt.Fprintf(os.Stderr, "FATAL: "+f+"\n", a...)
	// A checker that cannot see is not allowed to pass. No VIOLATION line is
	// printed: this is a statement about the analysis, not about murex.
	os.Exit(2)
}

type evidence struct {
	PropertyID  string         `json:"property_id"`
	Tier        string         `json:"tier"`
	Seed        int            `json:"seed"`
	Level       string         `json:"level"`
	Coverage    map[string]any `json:"coverage"`
	Assumptions []string       `json:"assumptions"`
	WallS       float64        `json:"wall_s"`
	Violations  int            `json:"violations"`
}

func (c *Ctx) Finish() int {
	known, _ := loadKnown(filepath.Join(c.VerifD, "known_findings.txt"))
	kmap := map[string]knownEntry{}
	for _, k := range known {
		if k.Prop == c.Prop {
			kmap[k.Key] = k
		}
	}
	sort.SliceStable(c.Obls, func(i, j int) bool {
		if c.Obls[i].Rule != c.Obls[j].Rule {
			return c.Obls[i].Rule < c.Obls[j].Rule
		}
		return c.Obls[i].Key < c.Obls[j].Key
	})
	var nOK, nViol, nKnown, nUnd, nLost int
	var bad []Obligation
	var knownHit []Obligation
	seenKnown := map[string]bool{}
	distinct := map[string]bool{}
	for _, o := range c.Obls {
		distinct[o.Key] = true
		switch o.Status {
		case StOK:
			nOK++
		case StViolation:
			if _, ok := kmap[o.Key]; ok {
				nKnown++
				knownHit = append(knownHit, o)
				seenKnown[o.Key] = true
			} else {
				nViol++
				bad = append(bad, o)
			}
		case StUndecided:
			nUnd++
			bad = append(bad, o)
		case StLost:
			nLost++
			bad = append(bad, o)
		}
	}
	// report file (the replay artefact)
	repDir := filepath.Join(c.VerifD, "reports")
	if c.NoEvidence {
		repDir = os.TempDir()
	}
	os.MkdirAll(repDir, 0o755)
	repPath := filepath.Join(repDir, fmt.Sprintf("%s-%s.txt", c.Prop, c.Tier))
	if c.NoEvidence {
		repPath = filepath.Join(repDir, fmt.Sprintf("murexlint-selftest-%d.txt", os.Getpid()))
		defer os.Remove(repPath)
	}
	var sb strings.Builder
	fmt.Fprintf(&sb, "murexlint report property=%s tier=%s repo=%s\n", c.Prop, c.Tier, c.Repo)
	for _, cf := range c.configs {
		fmt.Fprintf(&sb, "config: %s\n", cf)
	}
	fmt.Fprintf(&sb, "obligations=%d ok=%d violations=%d known=%d undecided=%d anchor-lost=%d\n\n", len(c.Obls), nOK, nViol, nKnown, nUnd, nLost)
	for _, id := range c.ruleSeq {
		fmt.Fprintf(&sb, "RULE %s: %s\n", id, c.Rules[id])
	}
	sb.WriteString("\n")
	for _, o := range bad {
		fmt.Fprintf(&sb, "%s %s at %s\n    %s\n", strings.ToUpper(string(o.Status)), o.Key, o.Pos, o.Detail)
	}
	for _, o := range knownHit {
		fmt.Fprintf(&sb, "KNOWN %s at %s\n    %s\n", o.Key, o.Pos, o.Detail)
	}
	sb.WriteString("\n-- all obligations --\n")
	for _, o := range c.Obls {
		fmt.Fprintf(&sb, "%-11s %s  [%s]  %s\n", o.Status, o.Key, o.Pos, o.Detail)
	}
	sb.WriteString("\n-- info --\n")
	for _, i := range c.Infos {
		sb.WriteString(i + "\n")
	}
	os.WriteFile(repPath, []byte(sb.String()), 0o644)

	// stdout
	for _, o := range knownHit {
		k := kmap[o.Key]
		fmt.Printf("KNOWN-FINDING: property=%s %s at %s — %s\n", c.Prop, o.Key, o.Pos, k.What)
	}
	for k, e := range kmap {
		if !seenKnown[k] {
			fmt.Printf("note: listed finding %s not re-derived on this tree (%s)\n", k, e.What)
		}
	}
	for _, o := range bad {
		fmt.Printf("%s: %s at %s: %s\n", strings.ToUpper(string(o.Status)), o.Key, o.Pos, o.Detail)
	}
	if c.Explain != "" {
		fmt.Print(sb.String())
	}

	// evidence
	samples := []any{}
	perRule := map[string]int{}
	for _, o := range c.Obls {
		perRule[o.Rule]++
	}
	seenRule := map[string]int{}
	for _, o := range c.Obls {
		if seenRule[o.Rule] < 3 || o.Status != StOK {
			samples = append(samples, o)
			seenRule[o.Rule]++
		}
	}
	rules := []any{}
	for _, id := range c.ruleSeq {
		rules = append(rules, map[string]any{"id": id, "rule": c.Rules[id], "obligations": perRule[id]})
	}
	expl := explanations[c.Prop]
	var later []string
	for _, id := range c.ruleSeq {
		if !strings.Contains(expl, id) {
			later = append(later, id)
		}
	}
	if len(later) > 0 {
		expl += " Also decides the rules " + strings.Join(later, ", ") + " (added while testing the checker against independently seeded changes); their statements are listed under coverage.rules."
	}
	ev := evidence{
		PropertyID: c.Prop, Tier: c.Tier, Seed: seedEnv(), Level: "other",
		Coverage: map[string]any{
			"explanation":         expl,
			"obligations":         len(c.Obls),
			"discharged":          nOK,
			"known_findings":      nKnown,
			"undecided":           nUnd,
			"anchor_lost":         nLost,
			"evaluations":         len(c.Obls),
			"distinct_nontrivial": len(distinct),
			"rule":                "each obligation is one (rule, construct) instance extracted from /repo's type-checked source on this run; distinct = distinct obligation keys; every obligation is non-trivial in that it names a concrete construct (function, call site, case, field access) whose shape was compared with the rule",
			"rules":               rules,
			"samples":             samples,
			"configurations":      c.configs,
			"functions_analysed":  c.nfuncs,
			"info":                c.Infos,
			"checker_cmd":         fmt.Sprintf("bin/check %s %s", c.Prop, c.Tier),
			"exhaustive":          true,
			"report":              repPath,
		},
		Assumptions: append([]string{
			"go/packages + go/types (x/tools v0.29.0) resolve /repo as the go build would for the stated configuration",
			"only the structural clause named in coverage.explanation is decided; the behavioural property as a whole is not",
		}, c.Assume...),
		WallS:      time.Since(c.start).Seconds(),
		Violations: nViol + nUnd + nLost,
	}
	evDir := filepath.Join(c.VerifD, "evidence")
	os.MkdirAll(evDir, 0o755)
	b, _ := json.MarshalIndent(ev, "", " ")
	if !c.NoEvidence {
		if err := os.WriteFile(filepath.Join(evDir, c.Prop+".json"), append(b, '\n'), 0o644); err != nil {
			fatal("write evidence: %v", err)
		}
	}
	fmt.Printf("%s %s: obligations=%d ok=%d known=%d violations=%d undecided=%d anchor-lost=%d wall=%.1fs report=%s\n",
		c.Prop, c.Tier, len(c.Obls), nOK, nKnown, nViol, nUnd, nLost, time.Since(c.start).Seconds(), repPath)
	if len(bad) > 0 {
		fmt.Printf("VIOLATION property=%s replay=%s\n", c.Prop, repPath)
		return 1
	}
	if len(c.Obls) == 0 {
		fatal("no obligations produced for %s — vacuous run", c.Prop)
	}
	return 0
}

func seedEnv() int {
	var s int
	fmt.Sscanf(os.Getenv("VERIF_SEED"), "%d", &s)
	return s
}
