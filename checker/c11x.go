package main

import (
	"go/ast"
)

func init() {
	extend("C11", func(c *Ctx) {
		c.Rule("R11f", "dotted paths resolve their root through the one lookup chain: in Variables.GetValue / GetString / GetDataType every call of the name-level getters (getValue, getString, getDataType) passes the path's first segment (split[0]) or the `.` constant — `$GLOBAL.x` goes through the GLOBAL root, never through a plain-name lookup of a later segment (which would let a local shadow it)")
		fdNames := []string{"GetValue", "GetString", "GetDataType"}
		pk := c.Pkg("lang")
		if pk == nil {
			return
		}
		info := pk.TypesInfo
		n := 0
		for _, name := range fdNames {
			fd, _ := c.MustFunc("R11f", "lang", "Variables", name)
			if fd == nil {
				continue
			}
			k := 0
			defs := localDefs(info, fd.Body)
			for _, call := range calls(fd.Body, false) {
				o := callee(info, call)
				if o == nil || len(call.Args) != 1 {
					continue
				}
				switch o.Name() {
				case "getValue", "getString", "getDataType":
				default:
					continue
				}
				if !callIs(info, call, mx("lang"), "Variables", o.Name()) {
					continue
				}
				n++
				k++
				arg := defs.resolve1(info, call.Args[0]) // `root := split[0]; v.getValue(root)` is the same lookup
				ok := false
				if ix, isIx := arg.(*ast.IndexExpr); isIx {
					if v, isC := constInt(info, ix.Index); isC && v == 0 {
						ok = true
					}
				}
				if _, isC := constString(info, arg); isC {
					ok = true // the `.` pseudo-variable
				}
				if id, isId := arg.(*ast.Ident); isId && isParam(info, fd, id) {
					ok = true // whole path (single segment helpers)
				}
				c.Check(ok, "R11f", name+":root-lookup#"+itoa(k), call.Pos(), "%s looks up %s — must be the path's first segment", name, c.src(arg))
			}
		}
		c.MinCount("R11f", "name-level lookups in the dotted-path getters", n, 6)
	})
}
