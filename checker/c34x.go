package main

import (
	"strings"
)

func init() {
	extend("C34", func(c *Ctx) {
		c.Rule("R34k", "where `$` and `@` are literal: an iteration of the tokenizer that reads a `$` or `@` without starting a variable / sub-shell token (no VarSigil store) is guarded by the escape flag or the single-quote flag only — inside double quotes and (brace quotes) murex expands `$…` and `${…}`, so treating the sigil as text there hides a sub-shell from the safe verdict")
		p := c.c34ParseModel("R34k")
		if p == nil {
			return
		}
		_, groups := p.groups()
		n := 0
		seen := map[string]bool{}
		for key, paths := range groups {
			for _, pa := range paths {
				isSigil := false
				for _, r := range pa.CaseRunes {
					if r == '$' || r == '@' {
						isSigil = true
					}
				}
				if !isSigil {
					continue
				}
				starts := false
				for _, ev := range pa.Events {
					if ev.Kind == c34EvStore && ev.Store.Target == "VarSigil" && ev.Store.Class != "str:" {
						starts = true
					}
				}
				if starts {
					continue
				}
				n++
				arm := pa.ArmKey
				ok := arm == "Escaped" || arm == "QuoteSingle" || strings.HasPrefix(arm, "Escaped") && !strings.Contains(arm, ",")
				// '@' is additionally literal where it cannot start an array token (documented: only at the start of a parameter)
				if !ok {
					for _, r := range pa.CaseRunes {
						if r == '@' && !strings.Contains(arm, "QuoteBrace") && !strings.Contains(arm, "QuoteDouble") {
							ok = true
						}
					}
				}
				if seen[key] && ok {
					continue
				}
				seen[key] = true
				c.Check(ok, "R34k", "literal-sigil:"+key, pa.Pos, "arm %s reads a sigil as plain text under guard %q", key, arm)
			}
		}
		c.MinCount("R34k", "literal-sigil paths", n, 2)
	})
}
