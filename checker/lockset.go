package main

// E1 — must-hold lockset analysis on go/cfg.
//
// For a struct type T with a mutex field m and a frozen guarded-by table
// (T.f -> m), every read of a guarded field needs m held (R or W), every write
// needs W. Forward must-analysis, join = intersection. Unexported helpers that
// touch guarded fields without taking the lock are summarised as "requires
// base.m held" and discharged at every resolved call site (bound 3 levels).

import (
	"fmt"
	"go/ast"
	"go/token"
	"go/types"
	"sort"
	"strings"

	"golang.org/x/tools/go/cfg"
	"golang.org/x/tools/go/packages"
)

type LockSpec struct {
	Pkg    string            // murex-relative package of the type
	Type   string            // struct type name
	Mutex  string            // mutex field name
	Fields []string          // guarded fields
	Atomic map[string]bool   // fields that may also be accessed through sync/atomic calls (&x.f argument)
	Exempt map[string]string // "func" or "func:field" or "func:field:kind" -> reason (reviewed exception, one symbol each)
	Scope  []string          // packages to scan (default: just Pkg)
}

type lockMode int

const (
	modeNone lockMode = iota
	modeR
	modeW
)

type lockState map[string]lockMode // lock path -> mode; nil = TOP (unvisited)

func (s lockState) clone() lockState {
	o := lockState{}
	for k, v := range s {
		o[k] = v
	}
	return o
}

func meet(a, b lockState) lockState {
	if a == nil {
		return b.clone()
	}
	if b == nil {
		return a.clone()
	}
	o := lockState{}
	for k, v := range a {
		if w, ok := b[k]; ok {
			if w < v {
				v = w
			}
			o[k] = v
		}
	}
	return o
}

func eqState(a, b lockState) bool {
	if (a == nil) != (b == nil) || len(a) != len(b) {
		return false
	}
	for k, v := range a {
		if b[k] != v {
			return false
		}
	}
	return true
}

type fieldAccess struct {
	Field string
	Base  string // selector path of the base object ("stdin", "n", "p.Parameters")
	Write bool
	Pos   token.Pos
	Held  lockMode
	Fresh bool // base is a freshly allocated local (constructor)
	Atom  bool // access is the &x.f argument of a sync/atomic call
}

type helperCall struct {
	Callee *types.Func
	Base   string // selector path of the receiver/arg at the call site
	Pos    token.Pos
	Held   lockMode
	Fresh  bool
}

type funcLockInfo struct {
	Key      string
	Decl     ast.Node
	Pos      token.Pos
	Obj      *types.Func
	Accesses []fieldAccess
	Calls    []helperCall // calls of same-package functions with a T-typed receiver/arg
	RecvBase string       // name of receiver or first T-typed param
	Locks    bool         // takes spec's mutex itself somewhere
	Exported bool
	IsLit    bool
}

// mutexOp classifies a call as a Lock/Unlock op on a selector path.
func mutexOp(info *types.Info, call *ast.CallExpr) (path string, op string) {
	se, ok := call.Fun.(*ast.SelectorExpr)
	if !ok {
		return "", ""
	}
	o := callee(info, call)
	if o == nil || o.Pkg() == nil || o.Pkg().Path() != "sync" {
		return "", ""
	}
	switch o.Name() {
	case "Lock", "Unlock", "RLock", "RUnlock":
	default:
		return "", ""
	}
	r := ""
	if fn, ok := o.(*types.Func); ok {
		if sig := fn.Type().(*types.Signature); sig.Recv() != nil {
			r = namedName(sig.Recv().Type())
		}
	}
	if r != "Mutex" && r != "RWMutex" {
		return "", ""
	}
	p := selPath(se.X)
	if p == "" {
		return "", ""
	}
	return p, o.Name()
}

func isTypeOf(t types.Type, pkgPath, name string) bool {
	return namedPath(t) == pkgPath+"."+name
}

// runLockset analyses spec and records one obligation per
// (field, function, kind).
func (c *Ctx) runLockset(rule string, spec LockSpec) (nAccess int) {
	tpath := mx(spec.Pkg)
	guarded := map[string]bool{}
	for _, f := range spec.Fields {
		guarded[f] = true
	}
	scope := spec.Scope
	if len(scope) == 0 {
		scope = []string{spec.Pkg}
	}
	tpk := c.Pkg(spec.Pkg)
	if tpk == nil {
		c.Lost(rule, "type:"+spec.Pkg+"."+spec.Type, "package not loaded")
		return 0
	}
	tobj := tpk.Types.Scope().Lookup(spec.Type)
	if tobj == nil {
		c.Lost(rule, "type:"+spec.Pkg+"."+spec.Type, "type not found")
		return 0
	}
	st := structOf(tobj.Type())
	if st == nil {
		c.Lost(rule, "type:"+spec.Pkg+"."+spec.Type, "not a struct")
		return 0
	}
	have := map[string]bool{}
	for i := 0; i < st.NumFields(); i++ {
		have[st.Field(i).Name()] = true
	}
	if !have[spec.Mutex] {
		c.Lost(rule, "mutex:"+spec.Type+"."+spec.Mutex, "mutex field missing")
		return 0
	}
	for _, f := range spec.Fields {
		if !have[f] {
			c.Lost(rule, "field:"+spec.Type+"."+f, "guarded field missing from struct (renamed?)")
		}
	}
	// fields of the struct that are neither guarded nor the mutex are listed as info
	var unguarded []string
	for i := 0; i < st.NumFields(); i++ {
		n := st.Field(i).Name()
		if !guarded[n] && n != spec.Mutex {
			unguarded = append(unguarded, n)
		}
	}
	c.Info("%s: %s.%s guarded=%v by %s; not in table (immutable after construction / other protocol): %v", rule, spec.Pkg, spec.Type, spec.Fields, spec.Mutex, unguarded)

	var infos []*funcLockInfo
	byObj := map[*types.Func]*funcLockInfo{}
	for _, rel := range scope {
		pk := c.Pkg(rel)
		if pk == nil {
			c.Lost(rule, "pkg:"+rel, "package not loaded")
			continue
		}
		for _, file := range pk.Syntax {
			for _, d := range file.Decls {
				fd, ok := d.(*ast.FuncDecl)
				if !ok || fd.Body == nil {
					continue
				}
				fi := c.lockFunc(pk, spec, tpath, guarded, funcKey(rel, fd), fd, fd.Body, fd.Type)
				fi.Exported = fd.Name.IsExported()
				if o, ok := pk.TypesInfo.Defs[fd.Name].(*types.Func); ok {
					fi.Obj = o
					byObj[o] = fi
				}
				infos = append(infos, fi)
				// function literals: analysed as separate functions with an
				// empty lockset (they may run on another goroutine).
				n := 0
				ast.Inspect(fd.Body, func(x ast.Node) bool {
					if fl, ok := x.(*ast.FuncLit); ok {
						n++
						li := c.lockFunc(pk, spec, tpath, guarded, fmt.Sprintf("%s$lit%d", funcKey(rel, fd), n), fl, fl.Body, fl.Type)
						li.IsLit = true
						infos = append(infos, li)
					}
					return true
				})
			}
		}
	}

	// helper summaries: function (not literal) with unlocked accesses that never
	// takes the lock itself and has >=1 resolved caller in scope, all callers
	// hold the lock (or are themselves helpers, up to depth 3).
	callers := map[*types.Func][]struct {
		From *funcLockInfo
		Call helperCall
	}{}
	for _, fi := range infos {
		for _, hc := range fi.Calls {
			callers[hc.Callee] = append(callers[hc.Callee], struct {
				From *funcLockInfo
				Call helperCall
			}{fi, hc})
		}
	}
	var heldByCallers func(fi *funcLockInfo, needW bool, depth int, seen map[*funcLockInfo]bool) (bool, string)
	heldByCallers = func(fi *funcLockInfo, needW bool, depth int, seen map[*funcLockInfo]bool) (bool, string) {
		if fi.Obj == nil || fi.IsLit {
			return false, "function literal"
		}
		if fi.Exported && spec.Exempt["helper:"+fi.Key] == "" {
			return false, "exported function (callable without the lock)"
		}
		cs := callers[fi.Obj]
		if len(cs) == 0 {
			return false, "no resolved caller in scope"
		}
		if depth > 3 || seen[fi] {
			return false, "helper chain deeper than 3"
		}
		seen[fi] = true
		defer delete(seen, fi)
		for _, cl := range cs {
			if cl.Call.Fresh {
				continue
			}
			if cl.Call.Held == modeW || (cl.Call.Held == modeR && !needW) {
				continue
			}
			// the caller passes its own receiver on and is itself a helper
			if cl.Call.Base == cl.From.RecvBase && !cl.From.Locks {
				if ok, _ := heldByCallers(cl.From, needW, depth+1, seen); ok {
					continue
				}
			}
			return false, fmt.Sprintf("caller %s at %s does not hold %s.%s", cl.From.Key, c.pos(cl.Call.Pos), cl.Call.Base, spec.Mutex)
		}
		return true, fmt.Sprintf("requires-lock helper: all %d resolved call sites hold the lock", len(cs))
	}

	type aggKey struct{ fn, field, kind string }
	type agg struct {
		n, bad int
		pos    token.Pos
		badPos token.Pos
		why    string
		note   string
	}
	aggs := map[aggKey]*agg{}
	var order []aggKey
	for _, fi := range infos {
		for _, a := range fi.Accesses {
			kind := "read"
			if a.Write {
				kind = "write"
			}
			k := aggKey{fi.Key, a.Field, kind}
			g := aggs[k]
			if g == nil {
				g = &agg{pos: a.Pos}
				aggs[k] = g
				order = append(order, k)
			}
			g.n++
			nAccess++
			ok := false
			switch {
			case a.Fresh:
				ok = true
				g.note = "object freshly allocated in this function (not yet shared)"
			case a.Atom && spec.Atomic[a.Field] && a.Held != modeNone:
				ok = true
			case a.Write && a.Held == modeW:
				ok = true
			case !a.Write && a.Held != modeNone:
				ok = true
			}
			if !ok && a.Base == fi.RecvBase && !fi.Locks {
				if h, why := heldByCallers(fi, a.Write, 1, map[*funcLockInfo]bool{}); h {
					ok = true
					g.note = why
				} else if g.why == "" {
					g.why = why
				}
			}
			if !ok {
				for _, ek := range []string{fi.Key, fi.Key + ":" + a.Field, fi.Key + ":" + a.Field + ":" + kind} {
					if r := spec.Exempt[ek]; r != "" {
						ok = true
						g.note = "reviewed exception: " + r
					}
				}
			}
			if !ok {
				g.bad++
				if g.badPos == token.NoPos {
					g.badPos = a.Pos
					held := "no lock"
					if a.Held == modeR {
						held = "only RLock"
					}
					w := g.why
					g.why = fmt.Sprintf("%s of %s.%s (base %q) with %s held on some path", kind, spec.Type, a.Field, a.Base, held)
					if w != "" {
						g.why += "; not a helper: " + w
					}
				}
			}
		}
	}
	sort.Slice(order, func(i, j int) bool {
		a, b := order[i], order[j]
		if a.fn != b.fn {
			return a.fn < b.fn
		}
		if a.field != b.field {
			return a.field < b.field
		}
		return a.kind < b.kind
	})
	for _, k := range order {
		g := aggs[k]
		key := fmt.Sprintf("%s.%s@%s:%s", spec.Type, k.field, strings.TrimPrefix(k.fn, spec.Pkg+"."), k.kind)
		if g.bad > 0 {
			c.Viol(rule, key, g.badPos, "%d of %d accesses unguarded: %s", g.bad, g.n, g.why)
		} else {
			c.OK(rule, key, g.pos, "%d accesses, %s.%s held at each%s", g.n, "<base>", spec.Mutex, noteStr(g.note))
		}
	}
	return nAccess
}

func noteStr(s string) string {
	if s == "" {
		return ""
	}
	return " (" + s + ")"
}

// lockFunc runs the dataflow over one function body.
func (c *Ctx) lockFunc(pk *packages.Package, spec LockSpec, tpath string, guarded map[string]bool, key string, decl ast.Node, body *ast.BlockStmt, ft *ast.FuncType) *funcLockInfo {
	info := pk.TypesInfo
	fi := &funcLockInfo{Key: key, Decl: decl, Pos: decl.Pos()}
	// receiver / first param of type T
	if fd, ok := decl.(*ast.FuncDecl); ok && fd.Recv != nil && len(fd.Recv.List) == 1 && len(fd.Recv.List[0].Names) == 1 {
		if isTypeOf(info.TypeOf(fd.Recv.List[0].Type), tpath, spec.Type) {
			fi.RecvBase = fd.Recv.List[0].Names[0].Name
		}
	}
	if fi.RecvBase == "" && ft.Params != nil {
		for _, p := range ft.Params.List {
			if isTypeOf(info.TypeOf(p.Type), tpath, spec.Type) && len(p.Names) > 0 {
				fi.RecvBase = p.Names[0].Name
				break
			}
		}
	}
	fresh := freshLocals(info, body, ft, tpath, spec.Type)

	g := cfg.New(body, func(call *ast.CallExpr) bool {
		if id, ok := call.Fun.(*ast.Ident); ok && id.Name == "panic" {
			return false
		}
		return true
	})
	in := make([]lockState, len(g.Blocks))
	if len(g.Blocks) == 0 {
		return fi
	}
	in[0] = lockState{}
	work := []int32{0}
	inWork := map[int32]bool{0: true}
	transfer := func(b *cfg.Block, s lockState, record bool) lockState {
		s = s.clone()
		for _, n := range b.Nodes {
			c.lockNode(info, spec, tpath, guarded, fresh, fi, n, s, record)
		}
		return s
	}
	for len(work) > 0 {
		bi := work[0]
		work = work[1:]
		inWork[bi] = false
		b := g.Blocks[bi]
		out := transfer(b, in[bi], false)
		for _, succ := range b.Succs {
			nw := meet(in[succ.Index], out)
			if in[succ.Index] == nil || !eqState(nw, in[succ.Index]) {
				in[succ.Index] = nw
				if !inWork[succ.Index] {
					work = append(work, succ.Index)
					inWork[succ.Index] = true
				}
			}
		}
	}
	for i, b := range g.Blocks {
		if in[i] == nil { // unreachable
			continue
		}
		transfer(b, in[i], true)
	}
	return fi
}

// freshLocals: local variables of type T / *T that are only ever assigned a
// fresh allocation in this function (new(T), &T{}, T{}).
func freshLocals(info *types.Info, body *ast.BlockStmt, ft *ast.FuncType, tpath, tname string) map[types.Object]bool {
	cand := map[types.Object]bool{}
	bad := map[types.Object]bool{}
	ptrInto := map[types.Object][]ast.Expr{} // every value assigned (by `=`/`:=`) to a struct(-pointer) local; nil = not a plain expression
	isFresh := func(e ast.Expr) bool {
		if e == nil {
			return false
		}
		e = unparen(e)
		if u, ok := e.(*ast.UnaryExpr); ok && u.Op == token.AND {
			e = unparen(u.X)
		}
		switch x := e.(type) {
		case *ast.CompositeLit:
			return structOf(info.TypeOf(x)) != nil
		case *ast.CallExpr:
			if id, ok := x.Fun.(*ast.Ident); ok && id.Name == "new" && len(x.Args) == 1 {
				return structOf(info.TypeOf(x.Args[0])) != nil
			}
		}
		return false
	}
	params := map[types.Object]bool{}
	if ft.Params != nil {
		for _, p := range ft.Params.List {
			for _, n := range p.Names {
				params[info.Defs[n]] = true
			}
		}
	}
	ast.Inspect(body, func(n ast.Node) bool {
		switch s := n.(type) {
		case *ast.AssignStmt:
			for i, l := range s.Lhs {
				id, ok := l.(*ast.Ident)
				if !ok {
					continue
				}
				o := info.ObjectOf(id)
				if o == nil || structOf(o.Type()) == nil {
					continue
				}
				if len(s.Rhs) == len(s.Lhs) && isFresh(s.Rhs[i]) {
					cand[o] = true
				} else {
					bad[o] = true
				}
				if len(s.Rhs) == len(s.Lhs) {
					ptrInto[o] = append(ptrInto[o], s.Rhs[i])
				} else {
					ptrInto[o] = append(ptrInto[o], nil)
				}
			}
		case *ast.ValueSpec:
			for i, id := range s.Names {
				o := info.ObjectOf(id)
				if o == nil || structOf(o.Type()) == nil {
					continue
				}
				if i < len(s.Values) && isFresh(s.Values[i]) {
					cand[o] = true
				} else if len(s.Values) > 0 {
					bad[o] = true
				} else if _, isPtr := o.Type().(*types.Pointer); !isPtr {
					cand[o] = true // `var x T` zero value is fresh
				}
			}
		}
		return true
	})
	// named results of (non-pointer) struct type: the zero value is owned by the function
	if ft.Results != nil {
		for _, f := range ft.Results.List {
			for _, n := range f.Names {
				o := info.Defs[n]
				if o == nil {
					continue
				}
				if _, isPtr := o.Type().(*types.Pointer); !isPtr && structOf(o.Type()) != nil {
					cand[o] = true
				}
			}
		}
	}
	out := map[types.Object]bool{}
	for o := range cand {
		if !bad[o] && !params[o] {
			out[o] = true
		}
	}
	// a pointer into a fresh allocation (`q = &fresh.field`, every assignment of q of that form or itself
	// fresh) is memory this function still owns
	for changed := true; changed; {
		changed = false
		for o, rs := range ptrInto {
			if out[o] || params[o] {
				continue
			}
			all := len(rs) > 0
			for _, r := range rs {
				u, ok := unparen(r).(*ast.UnaryExpr)
				if !(isFresh(r) || (ok && u.Op == token.AND && freshPath(info, out, u.X))) {
					all = false
				}
			}
			if all {
				out[o] = true
				changed = true
			}
		}
	}
	return out
}

// freshPath: e is rooted at a fresh local and reaches its target only through
// value (non-pointer) fields, i.e. memory owned by the fresh allocation.
func freshPath(info *types.Info, fresh map[types.Object]bool, e ast.Expr) bool {
	for {
		switch x := unparen(e).(type) {
		case *ast.Ident:
			return fresh[info.ObjectOf(x)]
		case *ast.SelectorExpr:
			if _, isPtr := info.TypeOf(x).Underlying().(*types.Pointer); isPtr {
				return false
			}
			e = x.X
		default:
			return false
		}
	}
}

func rootIdent(e ast.Expr) *ast.Ident {
	for {
		switch x := unparen(e).(type) {
		case *ast.Ident:
			return x
		case *ast.SelectorExpr:
			e = x.X
		case *ast.StarExpr:
			e = x.X
		case *ast.IndexExpr:
			e = x.X
		default:
			return nil
		}
	}
}

// lockNode processes one CFG node: records field accesses with the lock state
// current at that point and applies Lock/Unlock effects.
func (c *Ctx) lockNode(info *types.Info, spec LockSpec, tpath string, guarded map[string]bool, fresh map[types.Object]bool, fi *funcLockInfo, n ast.Node, s lockState, record bool) {
	// defer x.m.Unlock() — holds to exit: no state change. Other defers: their
	// bodies run at exit; accesses inside deferred literals are analysed as
	// separate functions.
	if d, ok := n.(*ast.DeferStmt); ok {
		if p, op := mutexOp(info, d.Call); p != "" && (op == "Unlock" || op == "RUnlock") {
			return
		}
		// evaluate arguments only
		for _, a := range d.Call.Args {
			c.lockExpr(info, spec, tpath, guarded, fresh, fi, a, s, record, false)
		}
		return
	}
	if g, ok := n.(*ast.GoStmt); ok {
		for _, a := range g.Call.Args {
			c.lockExpr(info, spec, tpath, guarded, fresh, fi, a, s, record, false)
		}
		return
	}
	switch st := n.(type) {
	case *ast.ExprStmt:
		if call, ok := st.X.(*ast.CallExpr); ok {
			if p, op := mutexOp(info, call); p != "" {
				if strings.HasSuffix(p, "."+spec.Mutex) || p == spec.Mutex {
					fi.Locks = true
				}
				switch op {
				case "Lock":
					s[p] = modeW
				case "RLock":
					if s[p] < modeR {
						s[p] = modeR
					}
				case "Unlock", "RUnlock":
					delete(s, p)
				}
				return
			}
		}
		c.lockExpr(info, spec, tpath, guarded, fresh, fi, st.X, s, record, false)
	case *ast.AssignStmt:
		for _, r := range st.Rhs {
			c.lockExpr(info, spec, tpath, guarded, fresh, fi, r, s, record, false)
		}
		for _, l := range st.Lhs {
			c.lockExpr(info, spec, tpath, guarded, fresh, fi, l, s, record, true)
		}
	case *ast.IncDecStmt:
		c.lockExpr(info, spec, tpath, guarded, fresh, fi, st.X, s, record, true)
	case *ast.RangeStmt:
		// cfg puts the range statement itself as a node in the loop header
		c.lockExpr(info, spec, tpath, guarded, fresh, fi, st.X, s, record, false)
	case *ast.ReturnStmt:
		for _, r := range st.Results {
			c.lockExpr(info, spec, tpath, guarded, fresh, fi, r, s, record, false)
		}
	case *ast.SendStmt:
		c.lockExpr(info, spec, tpath, guarded, fresh, fi, st.Chan, s, record, false)
		c.lockExpr(info, spec, tpath, guarded, fresh, fi, st.Value, s, record, false)
	case *ast.DeclStmt:
		ast.Inspect(st, func(x ast.Node) bool {
			if vs, ok := x.(*ast.ValueSpec); ok {
				for _, v := range vs.Values {
					c.lockExpr(info, spec, tpath, guarded, fresh, fi, v, s, record, false)
				}
				return false
			}
			return true
		})
	case ast.Expr:
		c.lockExpr(info, spec, tpath, guarded, fresh, fi, st, s, record, false)
	case *ast.ValueSpec:
		for _, v := range st.Values {
			c.lockExpr(info, spec, tpath, guarded, fresh, fi, v, s, record, false)
		}
	default:
		// other statement kinds appearing as nodes (labels, branch, empty,
		// select comm clauses' statements are given separately by cfg)
		if es, ok := n.(ast.Stmt); ok {
			ast.Inspect(es, func(x ast.Node) bool {
				if e, ok := x.(ast.Expr); ok {
					c.lockExpr(info, spec, tpath, guarded, fresh, fi, e, s, record, false)
					return false
				}
				return true
			})
		}
	}
}

// lockExpr walks an expression; write marks the outermost selector chain as a
// store target.
func (c *Ctx) lockExpr(info *types.Info, spec LockSpec, tpath string, guarded map[string]bool, fresh map[types.Object]bool, fi *funcLockInfo, e ast.Expr, s lockState, record bool, write bool) {
	if e == nil {
		return
	}
	switch x := e.(type) {
	case *ast.FuncLit:
		return // separate function
	case *ast.ParenExpr:
		c.lockExpr(info, spec, tpath, guarded, fresh, fi, x.X, s, record, write)
		return
	case *ast.StarExpr:
		c.lockExpr(info, spec, tpath, guarded, fresh, fi, x.X, s, record, write)
		return
	case *ast.IndexExpr:
		// x.f[k] = v  is a write to the container held in f
		c.lockExpr(info, spec, tpath, guarded, fresh, fi, x.X, s, record, write)
		c.lockExpr(info, spec, tpath, guarded, fresh, fi, x.Index, s, record, false)
		return
	case *ast.SliceExpr:
		c.lockExpr(info, spec, tpath, guarded, fresh, fi, x.X, s, record, false)
		for _, i := range []ast.Expr{x.Low, x.High, x.Max} {
			c.lockExpr(info, spec, tpath, guarded, fresh, fi, i, s, record, false)
		}
		return
	case *ast.SelectorExpr:
		if v, owner := fieldOf(info, x); v != nil {
			if owner == tpath+"."+spec.Type && guarded[v.Name()] {
				if record {
					c.recordAccess(info, spec, fresh, fi, x, v.Name(), s, write, false)
				}
				c.lockExpr(info, spec, tpath, guarded, fresh, fi, x.X, s, record, false)
				return
			}
			// x.f.g = v : writing through a guarded struct-valued field is a write
			// to it only if f holds a value (not pointer); keep `write` for value fields.
			if write {
				if _, isPtr := info.TypeOf(x.X).Underlying().(*types.Pointer); isPtr {
					write = false
				}
			}
			c.lockExpr(info, spec, tpath, guarded, fresh, fi, x.X, s, record, write)
			return
		}
		c.lockExpr(info, spec, tpath, guarded, fresh, fi, x.X, s, record, false)
		return
	case *ast.UnaryExpr:
		if x.Op == token.AND {
			// address-of a guarded field: treated as a write unless it is the
			// argument of a sync/atomic call (handled in CallExpr)
			c.lockExpr(info, spec, tpath, guarded, fresh, fi, x.X, s, record, true)
			return
		}
		c.lockExpr(info, spec, tpath, guarded, fresh, fi, x.X, s, record, false)
		return
	case *ast.BinaryExpr:
		c.lockExpr(info, spec, tpath, guarded, fresh, fi, x.X, s, record, false)
		c.lockExpr(info, spec, tpath, guarded, fresh, fi, x.Y, s, record, false)
		return
	case *ast.KeyValueExpr:
		c.lockExpr(info, spec, tpath, guarded, fresh, fi, x.Value, s, record, false)
		return
	case *ast.CompositeLit:
		for _, el := range x.Elts {
			c.lockExpr(info, spec, tpath, guarded, fresh, fi, el, s, record, false)
		}
		return
	case *ast.TypeAssertExpr:
		c.lockExpr(info, spec, tpath, guarded, fresh, fi, x.X, s, record, false)
		return
	case *ast.CallExpr:
		o := callee(info, x)
		// builtins that mutate their first argument
		if id, ok := x.Fun.(*ast.Ident); ok && o != nil && o.Pkg() == nil {
			switch id.Name {
			case "delete", "clear":
				if len(x.Args) > 0 {
					c.lockExpr(info, spec, tpath, guarded, fresh, fi, x.Args[0], s, record, true)
					for _, a := range x.Args[1:] {
						c.lockExpr(info, spec, tpath, guarded, fresh, fi, a, s, record, false)
					}
					return
				}
			case "copy":
				if len(x.Args) == 2 {
					c.lockExpr(info, spec, tpath, guarded, fresh, fi, x.Args[0], s, record, true)
					c.lockExpr(info, spec, tpath, guarded, fresh, fi, x.Args[1], s, record, false)
					return
				}
			}
		}
		// sync/atomic with &x.f
		if o != nil && o.Pkg() != nil && o.Pkg().Path() == "sync/atomic" {
			for _, a := range x.Args {
				if u, ok := unparen(a).(*ast.UnaryExpr); ok && u.Op == token.AND {
					if se, ok := unparen(u.X).(*ast.SelectorExpr); ok {
						if v, owner := fieldOf(info, se); v != nil && owner == tpath+"."+spec.Type && guarded[v.Name()] {
							if record {
								c.recordAccess(info, spec, fresh, fi, se, v.Name(), s, !strings.HasPrefix(o.Name(), "Load"), true)
							}
							continue
						}
					}
				}
				c.lockExpr(info, spec, tpath, guarded, fresh, fi, a, s, record, false)
			}
			return
		}
		// in-place mutators of a slice argument (sort.*, slices.Sort*)
		mut := false
		if o != nil && o.Pkg() != nil {
			switch o.Pkg().Path() + "." + o.Name() {
			case "sort.Strings", "sort.Ints", "sort.Slice", "sort.SliceStable", "sort.Sort", "sort.Stable", "slices.Sort", "slices.SortFunc", "slices.Reverse":
				mut = true
			}
		}
		// callee that stores into the elements of a slice/map parameter
		// (summary computed by the caller of runLockset)
		mutArgs := lockMutators[o]
		// helper call on a T-typed receiver/argument
		if fn, ok := o.(*types.Func); ok && record && fn.Pkg() != nil && strings.HasPrefix(fn.Pkg().Path(), modPath) {
			var baseExpr ast.Expr
			if se, ok := x.Fun.(*ast.SelectorExpr); ok {
				if sel := info.Selections[se]; sel != nil && isTypeOf(sel.Recv(), tpath, spec.Type) {
					baseExpr = se.X
				}
			}
			if baseExpr == nil {
				for _, a := range x.Args {
					if isTypeOf(info.TypeOf(a), tpath, spec.Type) {
						baseExpr = a
						break
					}
				}
			}
			if baseExpr != nil {
				if bp := selPath(baseExpr); bp != "" {
					hc := helperCall{Callee: fn, Base: bp, Pos: x.Pos(), Held: s[bp+"."+spec.Mutex]}
					if freshPath(info, fresh, baseExpr) {
						hc.Fresh = true
					}
					fi.Calls = append(fi.Calls, hc)
				}
			}
		}
		c.lockExpr(info, spec, tpath, guarded, fresh, fi, x.Fun, s, record, false)
		for i, a := range x.Args {
			c.lockExpr(info, spec, tpath, guarded, fresh, fi, a, s, record, (mut && i == 0) || mutArgs[i])
		}
		return
	}
}

// lockMutators: function object -> indexes of parameters whose elements the
// function stores into (p[i] = …, delete(p, k)). Filled by computeMutators.
var lockMutators = map[types.Object]map[int]bool{}

func computeMutators(pkgs []*packages.Package) int {
	n := 0
	for _, pk := range pkgs {
		info := pk.TypesInfo
		eachFunc(pk, func(fd *ast.FuncDecl) {
			obj := info.Defs[fd.Name]
			if obj == nil || fd.Type.Params == nil {
				return
			}
			idx := map[types.Object]int{}
			k := 0
			for _, f := range fd.Type.Params.List {
				for _, nm := range f.Names {
					if o := info.Defs[nm]; o != nil {
						switch o.Type().Underlying().(type) {
						case *types.Slice, *types.Map:
							idx[o] = k
						}
					}
					k++
				}
				if len(f.Names) == 0 {
					k++
				}
			}
			if len(idx) == 0 {
				return
			}
			mark := func(e ast.Expr) {
				if ix, ok := unparen(e).(*ast.IndexExpr); ok {
					if id, ok := unparen(ix.X).(*ast.Ident); ok {
						if i, ok := idx[info.ObjectOf(id)]; ok {
							if lockMutators[obj] == nil {
								lockMutators[obj] = map[int]bool{}
								n++
							}
							lockMutators[obj][i] = true
						}
					}
				}
			}
			ast.Inspect(fd.Body, func(nd ast.Node) bool {
				switch x := nd.(type) {
				case *ast.AssignStmt:
					for _, l := range x.Lhs {
						mark(l)
					}
				case *ast.IncDecStmt:
					mark(x.X)
				}
				return true
			})
		})
	}
	return n
}

func (c *Ctx) recordAccess(info *types.Info, spec LockSpec, fresh map[types.Object]bool, fi *funcLockInfo, se *ast.SelectorExpr, field string, s lockState, write, atom bool) {
	base := selPath(se.X)
	a := fieldAccess{Field: field, Base: base, Write: write, Pos: se.Pos(), Atom: atom}
	if base != "" {
		a.Held = s[base+"."+spec.Mutex]
	}
	if freshPath(info, fresh, se.X) {
		a.Fresh = true
	}
	fi.Accesses = append(fi.Accesses, a)
}
