package main

import (
	"go/ast"
	"go/types"
)

func init() {
	extend("C26", func(c *Ctx) {
		c.Rule("R26f", "error liveness in the pipe builtins (builtins/core/pipe): the error returned by every call of a registry method (*pipes.Named: CreatePipe, Close, Delete, Get, ExposePipe…) is read on every path before its variable is overwritten or the function ends — returned directly, tested in place, or stored and then looked at; `_ =`, a bare call or an assignment overwritten by the next loop iteration makes an operation on a missing pipe report success")
		pk := c.Pkg("builtins/core/pipe")
		if pk == nil {
			c.Lost("R26f", "pkg:builtins/core/pipe", "package not loaded")
			return
		}
		info := pk.TypesInfo
		isTarget := func(call *ast.CallExpr) (string, bool) {
			fn, ok := callee(info, call).(*types.Func)
			if !ok || fn.Pkg() == nil || fn.Pkg().Path() != modPath+"/"+pipesPkg {
				return "", false
			}
			sig := fn.Type().(*types.Signature)
			if sig.Recv() == nil || namedName(sig.Recv().Type()) != "Named" || sig.Results().Len() == 0 {
				return "", false
			}
			last := sig.Results().At(sig.Results().Len() - 1).Type()
			if !types.Identical(last, types.Universe.Lookup("error").Type()) {
				return "", false
			}
			return "Named." + fn.Name(), true
		}
		n := 0
		eachFunc(pk, func(fd *ast.FuncDecl) {
			if fd.Body == nil {
				return
			}
			n += c.errorsReachCaller("R26f", funcKey("builtins/core/pipe", fd), info, fd.Body, isTarget)
		})
		c.MinCount("R26f", "registry calls in the pipe builtins whose error is followed", n, 4)
	})
}
