package main

import (
	"go/ast"
	"go/token"
	"go/types"
)

func init() {
	register("C01", "Decides (structurally, for every path of every function in builtins/pipes/streams and stdio.WriteTo): mutual exclusion on the FIFO state (lockset), who may store the buffer and in which form, the EOF guard of Read, the pairing/count-consistency of append/copy/offset/counter/return value, the writer-count protocol (Open +1 / Close -1), the max=0 precondition of the non-draining readers, the truth table of Write's back-pressure exit, tee duplication and WriteTo forwarding. Does NOT decide ordering/duplication as a value-level fact, nor progress of a blocked writer under an arbitrary scheduler.", runC01)
}

const streamsPkg = "builtins/pipes/streams"

var stdinT = mx(streamsPkg) + ".Stdin"

var stdinSpecC01 = LockSpec{
	Pkg: streamsPkg, Type: "Stdin", Mutex: "mutex",
	Fields: []string{"buffer", "bRead", "bWritten", "max", "dependents"},
	Atomic: map[string]bool{"dependents": true},
}

func runC01(c *Ctx) {
	c.Load(streamsPkg, "lang/stdio")
	c.Rule("R01a", "E1 lockset: Stdin.{buffer,bRead,bWritten,max,dependents} are accessed only with Stdin.mutex held (constructors exempt: object not yet shared)")
	n := c.runLockset("R01a", stdinSpecC01)
	c.MinCount("R01a", "guarded accesses to streams.Stdin", n, 20)

	pk := c.Pkg(streamsPkg)
	if pk == nil {
		c.Lost("R01b", "pkg", "streams not loaded")
		return
	}
	info := pk.TypesInfo

	// ------------------------------------------------------------ R01b
	c.Rule("R01b", "who-may-write: every store to Stdin.buffer is (append of the whole []byte parameter to the old value) | (front re-slice buffer[k:] after copying buffer[:k] out) | (reset after copying the whole buffer out) | (reset in the cancelled-context arm); no other store form exists")
	nStores := 0
	eachFunc(pk, func(fd *ast.FuncDecl) {
		walkStack(fd.Body, func(n ast.Node, stack []ast.Node) bool {
			as, ok := n.(*ast.AssignStmt)
			if !ok {
				return true
			}
			for i, l := range as.Lhs {
				if !isField(info, l, stdinT, "buffer") {
					// element stores buffer[k] = v are never legitimate
					if ix, ok := unparen(l).(*ast.IndexExpr); ok && isField(info, ix.X, stdinT, "buffer") {
						nStores++
						c.Viol("R01b", "store:"+fd.Name.Name+":element", l.Pos(), "element store into the FIFO buffer: %s", c.src(as))
					}
					continue
				}
				nStores++
				if len(as.Rhs) != len(as.Lhs) || as.Tok != token.ASSIGN {
					c.Viol("R01b", "store:"+fd.Name.Name+":other", as.Pos(), "unrecognised store form %s", c.src(as))
					continue
				}
				base := selPath(l.(*ast.SelectorExpr).X)
				kind, detail := c.classifyBufferStore(info, fd, as, as.Rhs[i], base, stack)
				key := "store:" + fd.Name.Name + ":" + kind
				if kind == "other" {
					c.Viol("R01b", key, as.Pos(), "%s", detail)
				} else {
					c.OK("R01b", key, as.Pos(), "%s", detail)
				}
			}
			return true
		})
	})
	c.MinCount("R01b", "stores to Stdin.buffer", nStores, 3)

	// ------------------------------------------------------------ R01c EOF guard
	c.Rule("R01c", "every `return _, io.EOF` in (*Stdin).Read is in the cancelled-context arm, or is guarded by both len(buffer)==0 and dependents<1 (accepted forms <1, <=0, ==0), both read in one critical section")
	if fd, _ := c.MustFunc("R01c", streamsPkg, "Stdin", "Read"); fd != nil {
		c.checkEOFGuards(pk.TypesInfo, fd)
	}

	// ------------------------------------------------------------ R01d pairing
	c.Rule("R01d", "count consistency: Write appends the whole parameter p, adds len(p) to bWritten and returns len(p); where bytes are handed to a caller one value i is the copy length, the new buffer offset, the bRead increment (+=) and the returned count; the buffer must not be handed out by reference without being consumed")
	if fd, _ := c.MustFunc("R01d", streamsPkg, "Stdin", "Write"); fd != nil {
		c.checkWriteCounts(info, fd)
	}
	if fd, _ := c.MustFunc("R01d", streamsPkg, "Stdin", "Read"); fd != nil {
		c.checkReadCounts(info, fd)
	}
	if fd, _ := c.MustFunc("R01d", streamsPkg, "Stdin", "ReadAll"); fd != nil {
		c.checkReadAllCounts(info, fd)
	}
	if fd, _ := c.MustFunc("R01d", streamsPkg, "Stdin", "Stats"); fd != nil {
		// Stats returns (bWritten, bRead) in that order
		okW, okR := false, false
		ast.Inspect(fd.Body, func(n ast.Node) bool {
			if as, ok := n.(*ast.AssignStmt); ok && len(as.Lhs) == 1 && len(as.Rhs) == 1 {
				if id, ok := as.Lhs[0].(*ast.Ident); ok && fd.Type.Results != nil && len(fd.Type.Results.List) >= 1 {
					res := resultNames(fd)
					if len(res) == 2 {
						if id.Name == res[0] && isField(info, as.Rhs[0], stdinT, "bWritten") {
							okW = true
						}
						if id.Name == res[1] && isField(info, as.Rhs[0], stdinT, "bRead") {
							okR = true
						}
					}
				}
			}
			if rs, ok := n.(*ast.ReturnStmt); ok && len(rs.Results) == 2 {
				okW = isField(info, rs.Results[0], stdinT, "bWritten")
				okR = isField(info, rs.Results[1], stdinT, "bRead")
			}
			return true
		})
		c.Check(okW && okR, "R01d", "Stats:order", fd.Pos(), "Stats reports (bWritten, bRead) in result order")
	}

	// ------------------------------------------------------------ R01e
	c.Rule("R01e", "functions that wait for close without draining (ReadAll, ReadFrom) store max=0 before their wait loop; Write's back-pressure loop exits whenever len(buffer)<max and whenever max==0 (truth table over those atoms); nothing else stores a non-zero max after construction")
	for _, name := range []string{"ReadAll", "ReadFrom"} {
		if fd, _ := c.MustFunc("R01e", streamsPkg, "Stdin", name); fd != nil {
			c.checkMaxZeroBeforeLoop(info, fd)
		}
	}
	if fd, _ := c.MustFunc("R01e", streamsPkg, "Stdin", "Write"); fd != nil {
		c.checkBackPressure(info, fd)
	}

	// ------------------------------------------------------------ R01f WriteTo
	c.Rule("R01f", "stdio.WriteTo forwards p[:i] of every successful Read(p) to w.Write before the next Read, leaves the loop only on error/EOF, and maps io.EOF to a nil error")
	if fd, spk := c.MustFunc("R01f", "lang/stdio", "", "WriteTo"); fd != nil {
		c.checkWriteTo(spk.TypesInfo, fd)
	}
	if fd, _ := c.MustFunc("R01f", streamsPkg, "Stdin", "WriteTo"); fd != nil {
		ok := false
		for _, call := range calls(fd.Body, false) {
			if callIs(info, call, mx("lang/stdio"), "", "WriteTo") && len(call.Args) == 2 {
				if id, ok2 := call.Args[0].(*ast.Ident); ok2 && id.Name == recvVar(fd) {
					ok = true
				}
			}
		}
		c.Check(ok, "R01f", "Stdin.WriteTo:delegates", fd.Pos(), "(*Stdin).WriteTo delegates to stdio.WriteTo(stdin, w)")
	}

	c.Rule("R01i", "(*Stdin).ReadFrom writes p[:i] of every Read into the stream before it honours io.EOF from the source (an io.Reader may return data together with EOF): between r.Read(p) and stdin.Write(p[:i]) only exits whose condition excludes io.EOF are allowed, and the written slice is p[:i] of that Read")
	if fd, _ := c.MustFunc("R01i", streamsPkg, "Stdin", "ReadFrom"); fd != nil {
		c.checkReadFrom(info, fd)
	}

	// ------------------------------------------------------------ R01g writer count
	c.Rule("R01g", "writer-count protocol: Stdin.dependents changes only through atomic.AddInt32 by +1 in Open and by -1 in Close; nothing else stores it")
	c.checkDependents(pk.TypesInfo, pk.Syntax)

	// ------------------------------------------------------------ R01h tee
	c.Rule("R01h", "Tee.Write/Writeln pass the same parameter to both the secondary and the primary stream and return the primary's result; Tee.Read*/Open/Close go to the primary")
	for _, name := range []string{"Write", "Writeln"} {
		if fd, _ := c.MustFunc("R01h", streamsPkg, "Tee", name); fd != nil {
			c.checkTeeDup(info, fd, name)
		}
	}
	for _, name := range []string{"Read", "ReadAll", "Open", "Close", "ForceClose", "WriteTo"} {
		if fd, _ := c.MustFunc("R01h", streamsPkg, "Tee", name); fd != nil {
			ok := false
			for _, call := range calls(fd.Body, false) {
				if se, ok2 := call.Fun.(*ast.SelectorExpr); ok2 && se.Sel.Name == name && selPath(se.X) == recvVar(fd)+".primary" {
					ok = true
				}
			}
			c.Check(ok, "R01h", "Tee."+name+":primary", fd.Pos(), "Tee.%s forwards to primary.%s", name, name)
		}
	}
}

func resultNames(fd *ast.FuncDecl) []string {
	var out []string
	if fd.Type.Results == nil {
		return nil
	}
	for _, f := range fd.Type.Results.List {
		if len(f.Names) == 0 {
			out = append(out, "")
		}
		for _, n := range f.Names {
			out = append(out, n.Name)
		}
	}
	return out
}

func recvVar(fd *ast.FuncDecl) string {
	if fd.Recv != nil && len(fd.Recv.List) == 1 && len(fd.Recv.List[0].Names) == 1 {
		return fd.Recv.List[0].Names[0].Name
	}
	return ""
}

// classifyBufferStore decides the form of `base.buffer = rhs`.
func (c *Ctx) classifyBufferStore(info *types.Info, fd *ast.FuncDecl, as *ast.AssignStmt, rhs ast.Expr, base string, stack []ast.Node) (string, string) {
	rhs = unparen(rhs)
	// append form
	if call, ok := rhs.(*ast.CallExpr); ok {
		name := ""
		if id, ok := call.Fun.(*ast.Ident); ok {
			name = id.Name
		}
		isAppend := false
		if _, ok := isBuiltinCall(info, rhs, "append"); ok {
			isAppend = true
		}
		if callIs(info, call, mx(streamsPkg), "", "appendBytes") {
			isAppend = true
		}
		if isAppend && len(call.Args) == 2 && call.Ellipsis.IsValid() &&
			isField(info, call.Args[0], stdinT, "buffer") && selPath(call.Args[0].(*ast.SelectorExpr).X) == base {
			if id, ok := unparen(call.Args[1]).(*ast.Ident); ok {
				if isParam(info, fd, id) {
					return "append-param", "append of whole parameter " + id.Name + " via " + name
				}
			}
			return "other", "append of something other than a whole parameter: " + c.src(as)
		}
	}
	// the enclosing statement list, statements before the store
	var before []ast.Stmt
	for i := len(stack) - 1; i >= 0; i-- {
		var list []ast.Stmt
		switch b := stack[i].(type) {
		case *ast.BlockStmt:
			list = b.List
		case *ast.CaseClause:
			list = b.Body
		case *ast.CommClause:
			list = b.Body
		default:
			continue
		}
		idx := topLevelIndex(list, as)
		if idx >= 0 {
			before = list[:idx]
		}
		break
	}
	copied := func(whole bool, k ast.Expr) bool {
		for _, s := range before {
			for _, call := range calls(s, false) {
				if cp, ok := isBuiltinCall(info, call, "copy"); ok && len(cp.Args) == 2 {
					srcE := unparen(cp.Args[1])
					if whole && isField(info, srcE, stdinT, "buffer") {
						return true
					}
					if se, ok := srcE.(*ast.SliceExpr); ok && !whole && isField(info, se.X, stdinT, "buffer") && se.Low == nil && se.High != nil && k != nil && c.sameExpr(se.High, k) {
						return true
					}
				}
			}
			// k = copy(_, buffer): the copy's own result is the number of bytes
			// handed out, so buffer[k:] drops exactly those
			if ca, ok := s.(*ast.AssignStmt); ok && !whole && k != nil && len(ca.Lhs) == 1 && len(ca.Rhs) == 1 && c.sameExpr(ca.Lhs[0], k) {
				if cp, ok := isBuiltinCall(info, ca.Rhs[0], "copy"); ok && len(cp.Args) == 2 && isBufferPrefix(info, cp.Args[1]) {
					return true
				}
			}
		}
		return false
	}
	if isEmptySliceExpr(info, rhs) {
		if inDoneArm(info, stack) {
			return "reset-cancelled", "reset in the cancelled-context arm"
		}
		if copied(true, nil) {
			return "reset-after-copy", "reset after copy(_, buffer) of the whole buffer"
		}
		return "other", "buffer reset without the whole buffer having been copied out first (bytes dropped): " + c.src(as)
	}
	if se, ok := rhs.(*ast.SliceExpr); ok && isField(info, se.X, stdinT, "buffer") && se.High == nil && se.Low != nil && se.Max == nil {
		if copied(false, se.Low) {
			return "front-reslice", "buffer = buffer[" + c.src(se.Low) + ":] after copy(_, buffer[:" + c.src(se.Low) + "]) / " + c.src(se.Low) + " = copy(_, buffer)"
		}
		return "other", "front re-slice by " + c.src(se.Low) + " without copy(_, buffer[:" + c.src(se.Low) + "]) before it in the same block: " + c.src(as)
	}
	return "other", "unrecognised store form: " + c.src(as)
}

// isBufferPrefix: e is <x>.buffer or a prefix <x>.buffer[:h] / <x>.buffer[0:h]
// of it — copy() out of such a source hands out the first bytes of the FIFO and
// returns how many.
func isBufferPrefix(info *types.Info, e ast.Expr) bool {
	e = unparen(e)
	if isField(info, e, stdinT, "buffer") {
		return true
	}
	se, ok := e.(*ast.SliceExpr)
	if !ok || !isField(info, se.X, stdinT, "buffer") || se.Max != nil {
		return false
	}
	if se.Low != nil {
		if v, isC := constInt(info, se.Low); !isC || v != 0 {
			return false
		}
	}
	return true
}

func isParam(info *types.Info, fd *ast.FuncDecl, id *ast.Ident) bool {
	o := info.ObjectOf(id)
	if o == nil || fd.Type.Params == nil {
		return false
	}
	for _, f := range fd.Type.Params.List {
		for _, n := range f.Names {
			if info.Defs[n] == o {
				return true
			}
		}
	}
	return false
}

// depsClosedPred: expression means "dependents < 1" over the integers.
func (c *Ctx) isClosedTest(info *types.Info, defs defMap, e ast.Expr, truth bool) bool {
	x, op, k, ok := cmpNorm(info, e)
	if !ok {
		// boolean local defined as such a comparison
		r := defs.resolve1(info, e)
		if r != unparen(e) {
			return c.isClosedTest(info, defs, r, truth)
		}
		return false
	}
	x = defs.resolve1(info, x)
	if call, ok := x.(*ast.CallExpr); ok { // atomic.LoadInt32(&s.dependents)
		if o := callee(info, call); o != nil && o.Pkg() != nil && o.Pkg().Path() == "sync/atomic" && len(call.Args) == 1 {
			if u, ok := unparen(call.Args[0]).(*ast.UnaryExpr); ok && u.Op == token.AND {
				x = unparen(u.X)
			}
		}
	}
	if !isField(info, x, stdinT, "dependents") {
		return false
	}
	p := intPred(op, k)
	want := func(v int64) bool { return v < 1 }
	if !truth {
		q := p
		p = func(v int64) bool { return !q(v) }
	}
	// dependents is never negative (panicOnNegDeps), compare on [0, 4]
	return samePredOnRange(p, want, 0, 4)
}

func (c *Ctx) isBufEmptyTest(info *types.Info, defs defMap, e ast.Expr, truth bool) bool {
	x, op, k, ok := cmpNorm(info, e)
	if !ok {
		// boolean local defined as such a comparison (empty := len(buffer) == 0)
		r := defs.resolve1(info, e)
		if r != unparen(e) {
			return c.isBufEmptyTest(info, defs, r, truth)
		}
		return false
	}
	x = defs.resolve1(info, x)
	call, ok := isBuiltinCall(info, x, "len")
	if !ok || len(call.Args) != 1 || !isField(info, call.Args[0], stdinT, "buffer") {
		return false
	}
	p := intPred(op, k)
	if !truth {
		q := p
		p = func(v int64) bool { return !q(v) }
	}
	return samePredOnRange(p, func(v int64) bool { return v == 0 }, 0, 4)
}

// eofGuardRule: rule id under which checkEOFGuards records (C03 reuses it as R03e).
var eofGuardRule = "R01c"

func (c *Ctx) checkEOFGuards(info *types.Info, fd *ast.FuncDecl) {
	defs := localDefs(info, fd.Body)
	n := 0
	walkStack(fd.Body, func(nd ast.Node, stack []ast.Node) bool {
		if _, ok := nd.(*ast.FuncLit); ok {
			return false
		}
		rs, ok := nd.(*ast.ReturnStmt)
		if !ok || !isEOFReturn(info, fd, rs, stack) { // c03x.go: literal io.EOF or `err = io.EOF; return`
			return true
		}
		n++
		key := "Read:eof#" + itoa(n)
		if inCancelledArm(info, stack) { // c03x.go: `case <-ctx.Done()` or `if ctx.Err() != nil`
			c.OK(eofGuardRule, key, rs.Pos(), "EOF in the cancelled-context arm")
			return true
		}
		facts := factsOf(guardsAt(info, stack))
		empty, closed := false, false
		for _, f := range facts {
			if c.isBufEmptyTest(info, defs, f.E, f.True) {
				empty = true
			}
			if c.isClosedTest(info, defs, f.E, f.True) {
				closed = true
			}
		}
		// both locals must be read in one critical section: their defining
		// statements lie between one Lock and the following Unlock.
		same := c.sameCriticalSection(info, fd, defs, facts)
		if empty && closed && same {
			c.OK(eofGuardRule, key, rs.Pos(), "EOF guarded by len(buffer)==0 && dependents<1 read in one critical section")
		} else {
			c.Viol(eofGuardRule, key, rs.Pos(), "EOF returned without the full guard (buffer-empty=%v writers-closed=%v same-critical-section=%v): a reader could see end-of-stream while data or writers remain", empty, closed, same)
		}
		return true
	})
	c.MinCount(eofGuardRule, "EOF returns in Read", n, 2)
}

// sameCriticalSection: all single-definition locals that the facts mention and
// that are defined from Stdin fields are defined in the same statement list
// between a Lock() and its Unlock().
func (c *Ctx) sameCriticalSection(info *types.Info, fd *ast.FuncDecl, defs defMap, facts []Fact) bool {
	var defStmts []ast.Node
	for _, f := range facts {
		ast.Inspect(f.E, func(n ast.Node) bool {
			id, ok := n.(*ast.Ident)
			if !ok {
				return true
			}
			o := info.ObjectOf(id)
			ds := defs[o]
			if len(ds) == 1 && ds[0] != nil {
				usesField := false
				ast.Inspect(ds[0], func(m ast.Node) bool {
					if se, ok := m.(*ast.SelectorExpr); ok {
						if v, owner := fieldOf(info, se); v != nil && owner == stdinT {
							usesField = true
						}
					}
					return true
				})
				if usesField {
					defStmts = append(defStmts, ds[0])
				}
			}
			return true
		})
	}
	if len(defStmts) < 2 {
		return len(defStmts) == 1 || len(defStmts) == 0
	}
	// find the statement list holding the first def, and the lock region
	ok := true
	first := pathTo(fd.Body, defStmts[0])
	var list []ast.Stmt
	for i := len(first) - 1; i >= 0; i-- {
		if b, isB := first[i].(*ast.BlockStmt); isB {
			list = b.List
			break
		}
	}
	if list == nil {
		return false
	}
	region := func(n ast.Node) (int, int) {
		idx := topLevelIndex(list, n)
		if idx < 0 {
			return -1, -1
		}
		lo, hi := -1, -1
		for i := idx; i >= 0; i-- {
			if es, isE := list[i].(*ast.ExprStmt); isE {
				if call, isC := es.X.(*ast.CallExpr); isC {
					if _, op := mutexOp(info, call); op == "Lock" {
						lo = i
						break
					} else if op == "Unlock" {
						break
					}
				}
			}
		}
		for i := idx; i < len(list); i++ {
			if es, isE := list[i].(*ast.ExprStmt); isE {
				if call, isC := es.X.(*ast.CallExpr); isC {
					if _, op := mutexOp(info, call); op == "Unlock" {
						hi = i
						break
					} else if op == "Lock" && i != idx {
						break
					}
				}
			}
		}
		return lo, hi
	}
	lo0, hi0 := region(defStmts[0])
	if lo0 < 0 || hi0 < 0 {
		return false
	}
	for _, d := range defStmts[1:] {
		lo, hi := region(d)
		if lo != lo0 || hi != hi0 {
			ok = false
		}
	}
	return ok
}

func itoa(i int) string {
	return string([]byte{byte('0' + i/10), byte('0' + i%10)})
}

func (c *Ctx) checkWriteCounts(info *types.Info, fd *ast.FuncDecl) {
	// parameter p
	var p types.Object
	if fd.Type.Params != nil && len(fd.Type.Params.List) == 1 && len(fd.Type.Params.List[0].Names) == 1 {
		p = info.Defs[fd.Type.Params.List[0].Names[0]]
	}
	if p == nil {
		c.Undecided("R01d", "Write:param", fd.Pos(), "Write has no single named parameter")
		return
	}
	wdefs := localDefs(info, fd.Body)
	pStable := len(wdefs[p]) == 0 // the parameter is never reassigned, so a local `n := len(p)` keeps meaning len(p)
	isLenP := func(e ast.Expr) bool {
		e = stripConv(info, e)
		if pStable {
			e = stripConv(info, wdefs.resolve1(info, e))
		}
		call, ok := isBuiltinCall(info, e, "len")
		if !ok || len(call.Args) != 1 {
			return false
		}
		id, ok := unparen(call.Args[0]).(*ast.Ident)
		return ok && info.ObjectOf(id) == p
	}
	var appendStmt *ast.AssignStmt
	ast.Inspect(fd.Body, func(n ast.Node) bool {
		if as, ok := n.(*ast.AssignStmt); ok {
			for i, l := range as.Lhs {
				if isField(info, l, stdinT, "buffer") && i < len(as.Rhs) {
					if _, ok := unparen(as.Rhs[i]).(*ast.CallExpr); ok && !isEmptySliceExpr(info, as.Rhs[i]) {
						appendStmt = as
					}
				}
			}
		}
		return true
	})
	if appendStmt == nil {
		c.Viol("R01d", "Write:append", fd.Pos(), "Write never appends to the buffer")
		return
	}
	c.OK("R01d", "Write:append", appendStmt.Pos(), "append statement found: %s", c.src(appendStmt))
	// bWritten += len(p) in the same block, after or before the append, exactly once
	stack := pathTo(fd.Body, appendStmt)
	var list []ast.Stmt
	for i := len(stack) - 1; i >= 0; i-- {
		if b, ok := stack[i].(*ast.BlockStmt); ok {
			list = b.List
			break
		}
	}
	nInc := 0
	var incPos token.Pos
	for _, s := range list {
		if as, ok := s.(*ast.AssignStmt); ok && len(as.Lhs) == 1 && isField(info, as.Lhs[0], stdinT, "bWritten") {
			if as.Tok == token.ADD_ASSIGN && isLenP(as.Rhs[0]) {
				nInc++
				incPos = as.Pos()
			} else {
				nInc = -100
				incPos = as.Pos()
			}
		}
	}
	// any other store to bWritten anywhere in the function is a violation
	total := 0
	ast.Inspect(fd.Body, func(n ast.Node) bool {
		switch s := n.(type) {
		case *ast.AssignStmt:
			for _, l := range s.Lhs {
				if isField(info, l, stdinT, "bWritten") {
					total++
				}
			}
		case *ast.IncDecStmt:
			if isField(info, s.X, stdinT, "bWritten") {
				total += 100
			}
		}
		return true
	})
	if nInc == 1 && total == 1 {
		c.OK("R01d", "Write:bWritten", incPos, "bWritten += len(p) exactly once, in the block of the append")
	} else {
		pos := incPos
		if pos == token.NoPos {
			pos = appendStmt.Pos()
		}
		c.Viol("R01d", "Write:bWritten", pos, "bWritten is not increased by exactly len(p) in the critical section of the append (matching increments=%d, stores=%d): the byte counters would not report the bytes written", nInc, total)
	}
	// the return after the append returns len(p), nil
	okRet := false
	var retPos token.Pos
	idx := topLevelIndex(list, appendStmt)
	for _, s := range list[idx+1:] {
		if rs, ok := s.(*ast.ReturnStmt); ok {
			retPos = rs.Pos()
			if len(rs.Results) == 2 && isLenP(rs.Results[0]) {
				if id, ok := unparen(rs.Results[1]).(*ast.Ident); ok && id.Name == "nil" {
					okRet = true
				}
			}
		}
	}
	if retPos == token.NoPos {
		retPos = appendStmt.Pos()
	}
	c.Check(okRet, "R01d", "Write:return", retPos, "after the append Write returns (len(p), nil)")
	// the early return for empty p is (0, nil) guarded by len(p)==0
	walkStack(fd.Body, func(n ast.Node, st []ast.Node) bool {
		rs, ok := n.(*ast.ReturnStmt)
		if !ok || len(rs.Results) != 2 || rs.Pos() > appendStmt.Pos() {
			return true
		}
		if id, ok := unparen(rs.Results[1]).(*ast.Ident); ok && id.Name == "nil" {
			// success return before any append: only legitimate for empty p
			good := false
			for _, f := range factsOf(guardsAt(info, st)) {
				x, op, k, ok := cmpNorm(info, f.E)
				if ok && isLenP(x) {
					pr := intPred(op, k)
					if !f.True {
						q := pr
						pr = func(v int64) bool { return !q(v) }
					}
					if samePredOnRange(pr, func(v int64) bool { return v == 0 }, 0, 4) {
						good = true
					}
				}
			}
			c.Check(good, "R01d", "Write:early-success", rs.Pos(), "a success return before the append is guarded by len(p)==0 (otherwise bytes are acknowledged but dropped)")
		}
		return true
	})
}

func (c *Ctx) checkReadCounts(info *types.Info, fd *ast.FuncDecl) {
	res := resultNames(fd)
	if len(res) != 2 || res[0] == "" {
		c.Undecided("R01d", "Read:result", fd.Pos(), "Read has no named count result; recognised form uses one named result as copy length, offset, counter increment and return value")
		return
	}
	var iObj types.Object
	for _, f := range fd.Type.Results.List {
		for _, n := range f.Names {
			if n.Name == res[0] {
				iObj = info.Defs[n]
			}
		}
	}
	isI := func(e ast.Expr) bool {
		id, ok := stripConv(info, e).(*ast.Ident)
		return ok && info.ObjectOf(id) == iObj
	}
	var pObj types.Object
	if fd.Type.Params != nil && len(fd.Type.Params.List) == 1 && len(fd.Type.Params.List[0].Names) == 1 {
		pObj = info.Defs[fd.Type.Params.List[0].Names[0]]
	}
	isP := func(e ast.Expr) bool {
		id, ok := unparen(e).(*ast.Ident)
		return ok && info.ObjectOf(id) == pObj
	}
	isLenBuf := func(e ast.Expr) bool {
		call, ok := isBuiltinCall(info, e, "len")
		return ok && len(call.Args) == 1 && isField(info, call.Args[0], stdinT, "buffer")
	}
	isLenP := func(e ast.Expr) bool {
		call, ok := isBuiltinCall(info, e, "len")
		return ok && len(call.Args) == 1 && isP(call.Args[0])
	}
	nCopies := 0
	walkStack(fd.Body, func(n ast.Node, stack []ast.Node) bool {
		cp, ok := isBuiltinCall(info, exprOf(n), "copy")
		if !ok || len(cp.Args) != 2 {
			return true
		}
		srcE := unparen(cp.Args[1])
		whole := isField(info, srcE, stdinT, "buffer")
		var high ast.Expr
		if se, ok := srcE.(*ast.SliceExpr); ok && isField(info, se.X, stdinT, "buffer") {
			if se.Low != nil {
				if v, ok := constInt(info, se.Low); !ok || v != 0 {
					nCopies++
					c.Viol("R01d", "Read:copy#"+itoa(nCopies), cp.Pos(), "copy out of the middle of the buffer (%s): bytes before it are skipped", c.src(srcE))
					return true
				}
			}
			high = se.High
		} else if !whole {
			return true
		}
		nCopies++
		key := "Read:copy#" + itoa(nCopies)
		if !isP(cp.Args[0]) {
			c.Viol("R01d", key, cp.Pos(), "copy destination is not the caller's slice")
			return true
		}
		// enclosing list and index
		list := enclosingStmtList(stack)
		idx := topLevelIndex(list, cp)
		// value of i before the copy in this block (or i = copy(...) itself)
		var iDef ast.Expr
		iFromCopy := false
		for k := 0; k <= idx && k < len(list); k++ {
			if as, ok := list[k].(*ast.AssignStmt); ok && as.Tok == token.ASSIGN && len(as.Lhs) == 1 && isI(as.Lhs[0]) {
				iDef = unparen(as.Rhs[0])
				if k == idx {
					iFromCopy = true
				}
			}
		}
		facts := factsOf(guardsAt(info, stack))
		// does the guard imply len(p) >= len(buffer) / len(p) < len(buffer)?
		pGEbuf, pLTbuf := false, false
		for _, f := range facts {
			b, ok := unparen(f.E).(*ast.BinaryExpr)
			if !ok {
				continue
			}
			op := b.Op
			x, y := unparen(b.X), unparen(b.Y)
			if isLenBuf(x) && isLenP(y) {
				x, y = y, x
				op = map[token.Token]token.Token{token.LSS: token.GTR, token.GTR: token.LSS, token.LEQ: token.GEQ, token.GEQ: token.LEQ}[op]
			}
			if !(isLenP(x) && isLenBuf(y)) {
				continue
			}
			if !f.True {
				op = map[token.Token]token.Token{token.LSS: token.GEQ, token.GEQ: token.LSS, token.LEQ: token.GTR, token.GTR: token.LEQ}[op]
			}
			switch op {
			case token.GEQ, token.GTR:
				pGEbuf = true
			case token.LSS:
				pLTbuf = true
			case token.LEQ:
				// len(p) <= len(buffer): partial form is fine (i=len(p) <= len(buffer))
				pLTbuf = true
			}
		}
		// what follows: store to buffer, bRead += i
		var store ast.Expr
		for _, s := range list[idx+1:] {
			if as, ok := s.(*ast.AssignStmt); ok && len(as.Lhs) == 1 && isField(info, as.Lhs[0], stdinT, "buffer") {
				store = unparen(as.Rhs[0])
				break
			}
		}
		switch {
		case iFromCopy:
			// i = copy(p, buffer) ; buffer = buffer[i:]
			// copy() returns the number of bytes it handed out, from the front of
			// its source (the buffer or a prefix of it): advancing by exactly that
			// value is consistent whatever the sizes are
			se, ok := store.(*ast.SliceExpr)
			if ok && isField(info, se.X, stdinT, "buffer") && se.High == nil && se.Max == nil && se.Low != nil && isI(se.Low) {
				c.OK("R01d", key, cp.Pos(), "i = copy(p, buffer[:…]); buffer = buffer[i:] — one value is copy length and offset")
			} else {
				c.Viol("R01d", key, cp.Pos(), "i = copy(...) but the buffer is not advanced by exactly i (store: %s)", c.src(store))
			}
		case whole:
			if iDef != nil && isLenBuf(iDef) && pGEbuf && store != nil && isEmptySliceExpr(info, store) {
				c.OK("R01d", key, cp.Pos(), "whole-buffer arm: i=len(buffer), guard len(p)>=len(buffer), copy(p, buffer), buffer reset")
			} else {
				c.Viol("R01d", key, cp.Pos(), "whole-buffer copy arm inconsistent: i=%s guard(len(p)>=len(buffer))=%v store=%s — copy length, consumed length and reported count can differ (bytes lost or duplicated)", c.src(iDef), pGEbuf, c.src(store))
			}
		default:
			se, _ := store.(*ast.SliceExpr)
			okStore := se != nil && isField(info, se.X, stdinT, "buffer") && se.High == nil && se.Low != nil && high != nil && c.sameExpr(se.Low, high)
			if iDef != nil && isLenP(iDef) && pLTbuf && high != nil && isI(high) && okStore {
				c.OK("R01d", key, cp.Pos(), "partial arm: i=len(p), guard len(p)<len(buffer), copy(p, buffer[:i]), buffer=buffer[i:]")
			} else {
				c.Viol("R01d", key, cp.Pos(), "partial copy arm inconsistent: i=%s copy-high=%s guard(len(p)<len(buffer))=%v store=%s — copy length, new offset and reported count must be one value", c.src(iDef), c.src(high), pLTbuf, c.src(store))
			}
		}
		return true
	})
	c.MinCount("R01d", "copies out of the buffer in Read", nCopies, 1)
	// bRead += uint64(i) exactly once after the copies, in the function's top-level list, with lock held (lockset covers lock)
	nInc, nOther := 0, 0
	var pos token.Pos
	ast.Inspect(fd.Body, func(n ast.Node) bool {
		switch s := n.(type) {
		case *ast.AssignStmt:
			for _, l := range s.Lhs {
				if isField(info, l, stdinT, "bRead") {
					pos = s.Pos()
					if s.Tok == token.ADD_ASSIGN && len(s.Rhs) == 1 && isI(s.Rhs[0]) && topLevelIndex(fd.Body.List, s) >= 0 && isTopLevel(fd.Body.List, s) {
						nInc++
					} else {
						nOther++
					}
				}
			}
		case *ast.IncDecStmt:
			if isField(info, s.X, stdinT, "bRead") {
				nOther++
				pos = s.Pos()
			}
		}
		return true
	})
	if pos == token.NoPos {
		pos = fd.Pos()
	}
	c.Check(nInc == 1 && nOther == 0, "R01d", "Read:bRead", pos, "bRead += i exactly once after the copy arms (matching=%d other stores=%d)", nInc, nOther)
	// final return returns i
	last := fd.Body.List[len(fd.Body.List)-1]
	okRet := false
	if rs, ok := last.(*ast.ReturnStmt); ok {
		if len(rs.Results) == 0 {
			okRet = true // named results
		} else if len(rs.Results) == 2 && isI(rs.Results[0]) {
			okRet = true
		}
	}
	// and i is not modified between the copy arms and the return
	c.Check(okRet, "R01d", "Read:return", last.Pos(), "Read returns the same i as its byte count")
	nAssignI := 0
	for _, s := range fd.Body.List {
		if as, ok := s.(*ast.AssignStmt); ok {
			for _, l := range as.Lhs {
				if isI(l) {
					nAssignI++
				}
			}
		}
		if ids, ok := s.(*ast.IncDecStmt); ok && isI(ids.X) {
			nAssignI++
		}
	}
	c.Check(nAssignI == 0, "R01d", "Read:i-stable", fd.Pos(), "i is assigned only inside the copy arms (top-level reassignments: %d)", nAssignI)
}

// enclosingStmtList: the innermost statement list (block, case or select arm)
// that holds the node at the top of stack.
func enclosingStmtList(stack []ast.Node) []ast.Stmt {
	for i := len(stack) - 2; i >= 0; i-- {
		switch b := stack[i].(type) {
		case *ast.BlockStmt:
			// the body block of a switch/select holds clauses, not statements
			if len(b.List) > 0 {
				switch b.List[0].(type) {
				case *ast.CaseClause, *ast.CommClause:
					continue
				}
			}
			return b.List
		case *ast.CaseClause:
			return b.Body
		case *ast.CommClause:
			return b.Body
		}
	}
	return nil
}

func isTopLevel(list []ast.Stmt, s ast.Stmt) bool {
	for _, x := range list {
		if x == s {
			return true
		}
	}
	return false
}

func exprOf(n ast.Node) ast.Expr {
	if e, ok := n.(ast.Expr); ok {
		return e
	}
	return nil
}

func (c *Ctx) checkReadAllCounts(info *types.Info, fd *ast.FuncDecl) {
	// Delivered bytes must be accounted with += and consumed. Today's ReadAll
	// assigns bRead = len(buffer) and returns the live buffer without
	// consuming it.
	var bad []string
	var pos token.Pos = fd.Pos()
	consumed := false
	ast.Inspect(fd.Body, func(n ast.Node) bool {
		if as, ok := n.(*ast.AssignStmt); ok {
			for i, l := range as.Lhs {
				if isField(info, l, stdinT, "bRead") && as.Tok != token.ADD_ASSIGN {
					bad = append(bad, "bRead is assigned ("+c.src(as)+"), not increased: bytes already delivered by Read are forgotten")
					pos = as.Pos()
				}
				if isField(info, l, stdinT, "buffer") && i < len(as.Rhs) && isEmptySliceExpr(info, as.Rhs[i]) {
					consumed = true
				}
			}
		}
		return true
	})
	if !consumed {
		bad = append(bad, "the buffer is handed out without being consumed (a second ReadAll returns the same bytes again)")
	}
	if len(bad) == 0 {
		c.OK("R01d", "ReadAll:counts", pos, "ReadAll accounts with += and consumes the buffer")
	} else {
		c.Viol("R01d", "ReadAll:counts", pos, "%s", joinStr(bad, "; "))
	}
}

func joinStr(a []string, sep string) string {
	out := ""
	for i, s := range a {
		if i > 0 {
			out += sep
		}
		out += s
	}
	return out
}

// maxZeroRule: rule id under which checkMaxZeroBeforeLoop records (C03 reuses it).
var maxZeroRule = "R01e"

func (c *Ctx) checkMaxZeroBeforeLoop(info *types.Info, fd *ast.FuncDecl) {
	key := fd.Name.Name + ":max=0"
	loopIdx := -1
	for i, s := range fd.Body.List {
		if _, ok := s.(*ast.ForStmt); ok {
			loopIdx = i
			break
		}
	}
	if loopIdx < 0 {
		c.Undecided(maxZeroRule, key, fd.Pos(), "no top-level wait loop found in %s", fd.Name.Name)
		return
	}
	ok := false
	for _, s := range fd.Body.List[:loopIdx] {
		if as, isA := s.(*ast.AssignStmt); isA && as.Tok == token.ASSIGN && len(as.Lhs) == 1 && isField(info, as.Lhs[0], stdinT, "max") {
			if v, isC := constInt(info, as.Rhs[0]); isC && v == 0 {
				ok = true
			} else {
				ok = false
			}
		}
	}
	c.Check(ok, maxZeroRule, key, fd.Body.List[loopIdx].Pos(), "%s stores max=0 (unbounded) before its wait loop; otherwise a writer over the limit and this reader wait on each other forever", fd.Name.Name)
}

// backPressureRule: rule id under which checkBackPressure records (C03 reuses it: "always finishes").
var backPressureRule = "R01e"

func (c *Ctx) checkBackPressure(info *types.Info, fd *ast.FuncDecl) {
	defs := localDefs(info, fd.Body)
	var loop *ast.ForStmt
	for _, s := range fd.Body.List {
		if f, ok := s.(*ast.ForStmt); ok {
			loop = f
			break
		}
	}
	if loop == nil {
		c.Undecided(backPressureRule, "Write:backpressure", fd.Pos(), "no wait loop in Write")
		return
	}
	// the exit: `if cond { break }` at the loop body's top level, or loop.Cond
	// Several `if c { break }` at the loop body's top level are alternatives:
	// the loop is left when any of them holds (a || b split into two ifs).
	var cond ast.Expr
	var conds []ast.Expr
	negate := false
	if loop.Cond != nil {
		cond, negate = loop.Cond, true
	}
	for _, s := range loop.Body.List {
		if is, ok := s.(*ast.IfStmt); ok && is.Else == nil && is.Init == nil && len(is.Body.List) == 1 {
			if br, ok := is.Body.List[0].(*ast.BranchStmt); ok && br.Tok == token.BREAK && br.Label == nil {
				cond, negate = is.Cond, false
				conds = append(conds, is.Cond)
			}
		}
	}
	if cond == nil {
		c.Undecided(backPressureRule, "Write:backpressure", loop.Pos(), "exit condition of the back-pressure loop not recognised (forms: `for cond {`, `if cond { break }`)")
		return
	}
	// atoms over resolved operands: LT = len(buffer) < max ; Z = max == 0
	// Evaluate the condition on concrete small integer models instead of
	// matching syntax: l in 0..3, m in 0..3.
	var pLen int64 // model value of len(<parameter>)
	var evalInt func(e ast.Expr, l, m int64) (int64, bool)
	evalInt = func(e ast.Expr, l, m int64) (int64, bool) {
		e = defs.resolve1(info, e)
		if v, ok := constInt(info, e); ok {
			return v, true
		}
		if call, ok := isBuiltinCall(info, e, "len"); ok && len(call.Args) == 1 {
			if isField(info, call.Args[0], stdinT, "buffer") {
				return l, true
			}
			if id, ok := unparen(call.Args[0]).(*ast.Ident); ok && isParam(info, fd, id) {
				return pLen, true
			}
		}
		if isField(info, e, stdinT, "max") {
			return m, true
		}
		if b, ok := e.(*ast.BinaryExpr); ok && (b.Op == token.ADD || b.Op == token.SUB) {
			x, ok1 := evalInt(b.X, l, m)
			y, ok2 := evalInt(b.Y, l, m)
			if ok1 && ok2 {
				if b.Op == token.ADD {
					return x + y, true
				}
				return x - y, true
			}
		}
		return 0, false
	}
	undec := ""
	var evalB func(e ast.Expr, l, m int64) bool
	evalB = func(e ast.Expr, l, m int64) bool {
		e = unparen(e)
		if id, isId := e.(*ast.Ident); isId { // boolean local defined once: room := len(buffer) < max || max == 0
			if r := defs.resolve1(info, id); r != ast.Expr(id) {
				return evalB(r, l, m)
			}
		}
		switch x := e.(type) {
		case *ast.UnaryExpr:
			if x.Op == token.NOT {
				return !evalB(x.X, l, m)
			}
		case *ast.BinaryExpr:
			switch x.Op {
			case token.LAND:
				return evalB(x.X, l, m) && evalB(x.Y, l, m)
			case token.LOR:
				return evalB(x.X, l, m) || evalB(x.Y, l, m)
			case token.LSS, token.LEQ, token.GTR, token.GEQ, token.EQL, token.NEQ:
				a, ok1 := evalInt(x.X, l, m)
				b, ok2 := evalInt(x.Y, l, m)
				if ok1 && ok2 {
					return intPred(x.Op, b)(a)
				}
			}
		}
		undec = c.src(e)
		return false
	}
	bad := ""
	for pLen = 1; pLen <= 4; pLen++ {
		for l := int64(0); l <= 3; l++ {
			for m := int64(0); m <= 3; m++ {
				exit := evalB(cond, l, m)
				if negate {
					exit = !exit
				}
				for _, oc := range conds {
					if !negate && evalB(oc, l, m) {
						exit = true
					}
				}
				must := l < m || m == 0
				if must && !exit {
					bad = "len(buffer)=" + itoa(int(l)) + " max=" + itoa(int(m)) + " len(p)=" + itoa(int(pLen)) + ": the writer keeps waiting although the pipe has room / is unbounded (a write larger than the limit would never proceed)"
				}
			}
		}
	}
	if undec != "" {
		c.Undecided(backPressureRule, "Write:backpressure", cond.Pos(), "leaf %q of the exit condition is not an integer comparison over len(buffer), max and constants", undec)
		return
	}
	c.Check(bad == "", backPressureRule, "Write:backpressure", cond.Pos(), "exit condition %s holds whenever len(buffer)<max or max==0 (checked on all len(buffer),max in 0..3 and len(p) in 1..4) %s", c.src(cond), bad)
}

func (c *Ctx) checkWriteTo(info *types.Info, fd *ast.FuncDecl) {
	var loop *ast.ForStmt
	for _, s := range fd.Body.List {
		if f, ok := s.(*ast.ForStmt); ok {
			loop = f
		}
	}
	if loop == nil || loop.Cond != nil {
		c.Undecided("R01f", "WriteTo:loop", fd.Pos(), "no unconditional for-loop in WriteTo")
		return
	}
	list := loop.Body.List
	readIdx, writeIdx := -1, -1
	var bufObj, iObj, errObj types.Object
	for k, s := range list {
		as, ok := s.(*ast.AssignStmt)
		if !ok || len(as.Rhs) != 1 || len(as.Lhs) != 2 {
			continue
		}
		call, ok := as.Rhs[0].(*ast.CallExpr)
		if !ok {
			continue
		}
		se, ok := call.Fun.(*ast.SelectorExpr)
		if !ok || len(call.Args) != 1 {
			continue
		}
		if se.Sel.Name == "Read" && readIdx < 0 {
			if id, ok := call.Args[0].(*ast.Ident); ok {
				bufObj = info.ObjectOf(id)
			}
			if id, ok := as.Lhs[0].(*ast.Ident); ok {
				iObj = info.ObjectOf(id)
			}
			if id, ok := as.Lhs[1].(*ast.Ident); ok {
				errObj = info.ObjectOf(id)
			}
			readIdx = k
		}
		if se.Sel.Name == "Write" && writeIdx < 0 && readIdx >= 0 {
			writeIdx = k
			arg, ok := unparen(call.Args[0]).(*ast.SliceExpr)
			good := ok && arg.Low == nil && arg.High != nil && arg.Max == nil
			if good {
				x, ok1 := arg.X.(*ast.Ident)
				h, ok2 := arg.High.(*ast.Ident)
				good = ok1 && ok2 && info.ObjectOf(x) == bufObj && info.ObjectOf(h) == iObj && bufObj != nil && iObj != nil
			}
			c.Check(good, "R01f", "WriteTo:forward-slice", call.Pos(), "w.Write receives p[:i] of the buffer and count returned by the preceding Read (got %s)", c.src(call.Args[0]))
		}
	}
	if readIdx < 0 || writeIdx < 0 || writeIdx < readIdx {
		c.Viol("R01f", "WriteTo:read-then-write", loop.Pos(), "loop body does not consist of Read followed by an unconditional Write at its top level (read@%d write@%d)", readIdx, writeIdx)
		return
	}
	// Between Read and the (unconditional, top-level) Write: every statement that
	// leaves the straight path — return, break out of the loop, goto, panic — is
	// examined with the conditions it stands under (if / else-if / tagless switch
	// arms, earlier `if c { return }` exits; nested or flat). Those conditions may
	// speak about err only (the loop is left on error/EOF, never because of the
	// data), `continue` is never allowed, and the count/buffer/err of the Read are
	// not overwritten before the Write.
	lo, hi := list[readIdx].End(), list[writeIdx].Pos()
	onlyErr := func(e ast.Expr) bool {
		res := true
		ast.Inspect(e, func(n ast.Node) bool {
			if id, isId := n.(*ast.Ident); isId {
				o := info.ObjectOf(id)
				if o != errObj && !(o != nil && o.Pkg() != nil && o.Pkg().Path() == "io") && id.Name != "nil" {
					if _, isPkg := o.(*types.PkgName); !isPkg {
						res = false
					}
				}
			}
			return true
		})
		return res
	}
	isErrVsEOF := func(f Fact) (eq bool, ok bool) { // fact says err == io.EOF (eq) or err != io.EOF (!eq)
		b, isB := unparen(f.E).(*ast.BinaryExpr)
		if !isB || (b.Op != token.EQL && b.Op != token.NEQ) {
			return false, false
		}
		x, y := unparen(b.X), unparen(b.Y)
		if isPkgObj(info, x, "io", "EOF") {
			x, y = y, x
		}
		id, isId := x.(*ast.Ident)
		if !isId || info.ObjectOf(id) != errObj || !isPkgObj(info, y, "io", "EOF") {
			return false, false
		}
		return (b.Op == token.EQL) == f.True, true
	}
	isErrVsNil := func(f Fact) (isNil bool, ok bool) { // fact says err == nil (isNil) or err != nil
		b, isB := unparen(f.E).(*ast.BinaryExpr)
		if !isB || (b.Op != token.EQL && b.Op != token.NEQ) {
			return false, false
		}
		x, y := unparen(b.X), unparen(b.Y)
		if id, isId := x.(*ast.Ident); isId && id.Name == "nil" {
			x, y = y, x
		}
		id, isId := x.(*ast.Ident)
		nl, isNl := y.(*ast.Ident)
		if !isId || !isNl || nl.Name != "nil" || info.ObjectOf(id) != errObj {
			return false, false
		}
		return (b.Op == token.EQL) == f.True, true
	}
	ok := true
	eofNil := false
	walkStack(loop.Body, func(n ast.Node, st []ast.Node) bool {
		if _, isLit := n.(*ast.FuncLit); isLit {
			return false
		}
		if n.Pos() < lo || n.End() > hi {
			return true
		}
		isExit := false
		switch x := n.(type) {
		case *ast.ReturnStmt:
			isExit = true
		case *ast.BranchStmt:
			switch x.Tok {
			case token.CONTINUE:
				c.Viol("R01f", "WriteTo:continue", x.Pos(), "`continue` between Read and Write drops the bytes just read")
			case token.GOTO:
				isExit = true
			case token.BREAK:
				isExit = true
				if x.Label == nil {
					for _, a := range st[:len(st)-1] {
						switch a.(type) {
						case *ast.SwitchStmt, *ast.TypeSwitchStmt, *ast.SelectStmt, *ast.ForStmt, *ast.RangeStmt:
							if a.Pos() >= lo {
								isExit = false // leaves an inner statement only
							}
						}
					}
				}
			}
		case *ast.ExprStmt:
			if call, isC := x.X.(*ast.CallExpr); isC {
				if id, isId := call.Fun.(*ast.Ident); isId && id.Name == "panic" {
					isExit = true
				}
				for _, a := range call.Args { // a call that is handed the buffer may change it
					if mentions(info, a, bufObj) {
						ok = false
					}
				}
			}
		case *ast.AssignStmt:
			for _, l := range x.Lhs {
				if id, isId := unparen(l).(*ast.Ident); isId {
					if o := info.ObjectOf(id); o != nil && (o == bufObj || o == iObj || o == errObj) {
						ok = false
					}
				}
			}
		case *ast.IncDecStmt:
			if id, isId := unparen(x.X).(*ast.Ident); isId && info.ObjectOf(id) == iObj {
				ok = false
			}
		case *ast.ForStmt, *ast.RangeStmt, *ast.GoStmt, *ast.DeferStmt, *ast.LabeledStmt:
			ok = false // not a recognised shape between Read and Write
		}
		if !isExit {
			return true
		}
		var gs []Guard
		for _, g := range guardsAt(info, st) {
			if g.Cond == nil {
				ok = false // tagged switch: not a recognised error test
				continue
			}
			if g.Cond.Pos() >= lo {
				gs = append(gs, g)
			}
		}
		if len(gs) == 0 {
			ok = false // unconditional exit: nothing is ever forwarded
		}
		for _, g := range gs {
			if !onlyErr(g.Cond) {
				ok = false
			}
		}
		// err == io.EOF → return _, nil (and not contradicted by err == nil / err != io.EOF)
		if rs, isR := n.(*ast.ReturnStmt); isR && len(rs.Results) == 2 {
			if id, isId := unparen(rs.Results[1]).(*ast.Ident); isId && id.Name == "nil" {
				isEOF, contra := false, false
				for _, f := range factsOf(gs) {
					if eq, is := isErrVsEOF(f); is {
						if eq {
							isEOF = true
						} else {
							contra = true
						}
					}
					if isNil, is := isErrVsNil(f); is && isNil {
						contra = true
					}
				}
				if isEOF && !contra {
					eofNil = true
				}
			}
		}
		return true
	})
	c.Check(ok, "R01f", "WriteTo:no-skip", list[readIdx].Pos(), "between Read and Write only error exits (conditions over err) — no path skips forwarding a successful read")
	c.Check(eofNil, "R01f", "WriteTo:eof-nil", list[readIdx].Pos(), "io.EOF ends the copy with a nil error")
}

func (c *Ctx) checkDependents(info *types.Info, files []*ast.File) {
	n := 0
	for _, f := range files {
		for _, d := range f.Decls {
			fd, ok := d.(*ast.FuncDecl)
			if !ok || fd.Body == nil {
				continue
			}
			ast.Inspect(fd.Body, func(nd ast.Node) bool {
				switch s := nd.(type) {
				case *ast.AssignStmt:
					for _, l := range s.Lhs {
						if isField(info, l, stdinT, "dependents") {
							n++
							c.Viol("R01g", "dependents:store@"+fd.Name.Name, s.Pos(), "direct store to the writer count: %s", c.src(s))
						}
					}
				case *ast.IncDecStmt:
					if isField(info, s.X, stdinT, "dependents") {
						n++
						c.Viol("R01g", "dependents:incdec@"+fd.Name.Name, s.Pos(), "non-atomic update of the writer count outside the Open/Close protocol: %s", c.src(s))
					}
				case *ast.CallExpr:
					o := callee(info, s)
					if o == nil || o.Pkg() == nil || o.Pkg().Path() != "sync/atomic" || len(s.Args) < 1 {
						return true
					}
					u, ok := unparen(s.Args[0]).(*ast.UnaryExpr)
					if !ok || u.Op != token.AND || !isField(info, u.X, stdinT, "dependents") {
						return true
					}
					if o.Name() == "LoadInt32" {
						return true
					}
					n++
					key := "dependents:" + o.Name() + "@" + fd.Name.Name
					if o.Name() != "AddInt32" || len(s.Args) != 2 {
						c.Viol("R01g", key, s.Pos(), "writer count changed by %s", o.Name())
						return true
					}
					d, isC := constInt(info, s.Args[1])
					want := map[string]int64{"Open": 1, "Close": -1}
					w, known := want[fd.Name.Name]
					if recvName(fd) == "Stdin" && known && isC && d == w {
						c.OK("R01g", key, s.Pos(), "%s adds %d", fd.Name.Name, d)
					} else {
						c.Viol("R01g", key, s.Pos(), "writer count changed by %v in %s (protocol: Open +1, Close -1)", c.src(s.Args[1]), fd.Name.Name)
					}
				}
				return true
			})
		}
	}
	c.MinCount("R01g", "writer-count updates", n, 2)
}

func (c *Ctx) checkTeeDup(info *types.Info, fd *ast.FuncDecl, name string) {
	var p types.Object
	if fd.Type.Params != nil && len(fd.Type.Params.List) == 1 && len(fd.Type.Params.List[0].Names) == 1 {
		p = info.Defs[fd.Type.Params.List[0].Names[0]]
	}
	rv := recvVar(fd)
	sec, prim := false, false
	var primRes []types.Object // results of `x, y := <recv>.primary.<name>(p)`
	for _, s := range fd.Body.List {
		var call *ast.CallExpr
		var asg *ast.AssignStmt
		isRet := false
		switch x := s.(type) {
		case *ast.ExprStmt:
			call, _ = x.X.(*ast.CallExpr)
		case *ast.ReturnStmt:
			if len(x.Results) == 1 {
				call, _ = x.Results[0].(*ast.CallExpr)
				isRet = true
			}
		case *ast.AssignStmt:
			if len(x.Rhs) == 1 {
				call, _ = x.Rhs[0].(*ast.CallExpr)
				asg = x
			}
		}
		// `n, err := tee.primary.Write(p); return n, err` — the primary's results returned unchanged
		if rs, isR := s.(*ast.ReturnStmt); isR && primRes != nil && len(rs.Results) == len(primRes) {
			same := true
			for k, r := range rs.Results {
				id, isId := unparen(r).(*ast.Ident)
				if !isId || info.ObjectOf(id) != primRes[k] {
					same = false
				}
			}
			if same {
				prim = true
			}
		}
		if call == nil || len(call.Args) != 1 {
			continue
		}
		id, ok := unparen(call.Args[0]).(*ast.Ident)
		if !ok || info.ObjectOf(id) != p {
			continue
		}
		se, ok := call.Fun.(*ast.SelectorExpr)
		if !ok || se.Sel.Name != name {
			continue
		}
		switch selPath(se.X) {
		case rv + ".secondary":
			sec = true
		case rv + ".primary":
			if isRet {
				prim = true
			} else if asg != nil && len(asg.Lhs) == 2 {
				primRes = nil
				for _, l := range asg.Lhs {
					if id, isId := l.(*ast.Ident); isId && id.Name != "_" {
						primRes = append(primRes, info.ObjectOf(id))
					} else {
						primRes = nil
						break
					}
				}
			}
		}
	}
	c.Check(sec && prim, "R01h", "Tee."+name+":both", fd.Pos(), "Tee.%s writes the parameter to the secondary stream and returns primary.%s(parameter) (secondary=%v primary-returned=%v)", name, name, sec, prim)
}

func (c *Ctx) checkReadFrom(info *types.Info, fd *ast.FuncDecl) {
	// locate the statement list holding both the Read and the Write
	var list []ast.Stmt
	var readIdx, writeIdx = -1, -1
	var bufObj, nObj, errObj types.Object
	ast.Inspect(fd.Body, func(nd ast.Node) bool {
		var l []ast.Stmt
		switch b := nd.(type) {
		case *ast.BlockStmt:
			l = b.List
		case *ast.CaseClause:
			l = b.Body
		case *ast.CommClause:
			l = b.Body
		default:
			return true
		}
		ri, wi := -1, -1
		var bo, no, eo types.Object
		for k, s := range l {
			as, ok := s.(*ast.AssignStmt)
			if !ok || len(as.Rhs) != 1 || len(as.Lhs) != 2 {
				continue
			}
			call, ok := as.Rhs[0].(*ast.CallExpr)
			if !ok || len(call.Args) != 1 {
				continue
			}
			se, ok := call.Fun.(*ast.SelectorExpr)
			if !ok {
				continue
			}
			if se.Sel.Name == "Read" && ri < 0 {
				if id, ok := call.Args[0].(*ast.Ident); ok {
					bo = info.ObjectOf(id)
				}
				if id, ok := as.Lhs[0].(*ast.Ident); ok {
					no = info.ObjectOf(id)
				}
				if id, ok := as.Lhs[1].(*ast.Ident); ok {
					eo = info.ObjectOf(id)
				}
				ri = k
			}
			if se.Sel.Name == "Write" && ri >= 0 && wi < 0 && selPath(se.X) == recvVar(fd) {
				wi = k
			}
		}
		if ri >= 0 && wi > ri {
			list, readIdx, writeIdx, bufObj, nObj, errObj = l, ri, wi, bo, no, eo
		}
		return true
	})
	if list == nil {
		c.Viol("R01i", "ReadFrom:read-then-write", fd.Pos(), "ReadFrom has no statement list with r.Read(p) followed by stdin.Write(...): bytes read from the source are not forwarded")
		return
	}
	// written slice is p[:i]
	wcall := list[writeIdx].(*ast.AssignStmt).Rhs[0].(*ast.CallExpr)
	arg, ok := unparen(wcall.Args[0]).(*ast.SliceExpr)
	good := ok && arg.Low == nil && arg.High != nil
	if good {
		x, ok1 := arg.X.(*ast.Ident)
		h, ok2 := arg.High.(*ast.Ident)
		good = ok1 && ok2 && info.ObjectOf(x) == bufObj && info.ObjectOf(h) == nObj
	}
	c.Check(good, "R01i", "ReadFrom:forward-slice", wcall.Pos(), "stdin.Write receives p[:i] of the preceding Read (got %s)", c.src(wcall.Args[0]))
	okExits := true
	var badPos token.Pos = list[readIdx].Pos()
	for _, s := range list[readIdx+1 : writeIdx] {
		is, isIf := s.(*ast.IfStmt)
		if !isIf {
			if _, isAssign := s.(*ast.AssignStmt); isAssign {
				continue
			}
			okExits = false
			badPos = s.Pos()
			continue
		}
		if !terminates(info, is.Body.List) {
			continue
		}
		// the exit condition must exclude io.EOF: facts(cond true) contain err != io.EOF
		excl := false
		for _, f := range factsOf([]Guard{{Cond: is.Cond}}) {
			if b, isB := unparen(f.E).(*ast.BinaryExpr); isB && (b.Op == token.NEQ) == f.True && (b.Op == token.NEQ || b.Op == token.EQL) {
				x, y := unparen(b.X), unparen(b.Y)
				if isPkgObj(info, x, "io", "EOF") {
					x, y = y, x
				}
				if id, isId := x.(*ast.Ident); isId && info.ObjectOf(id) == errObj && isPkgObj(info, y, "io", "EOF") {
					excl = true
				}
			}
		}
		if !excl {
			okExits = false
			badPos = is.Pos()
		}
	}
	c.Check(okExits, "R01i", "ReadFrom:eof-after-write", badPos, "between r.Read(p) and stdin.Write(p[:i]) every exit excludes io.EOF — data returned together with EOF is written before the copy ends (otherwise the final chunk is lost)")
}
