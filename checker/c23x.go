package main

import (
	"go/ast"
	"go/token"
	"go/types"
	"strings"
)

// R23d is phrased over resolved facts: the switch is recognised by its case
// constants (the package-level fpc* constants, through go/types), the
// accumulation statement by the struct field it assigns (a field of
// lang.MurexFuncParam appended to itself), the appended text by its constant
// value or by its expression up to the spelling of a rune→string conversion.
// Names of locals (`context`, `mfp`, `counter`) play no role.
func init() {
	extend("C23", func(c *Ctx) {
		c.Rule("R23d", "signature parser state machine: inside ParseMxFunctionParameters text read in a context is accumulated into that context's own field — every `mfp[counter].F += …` under `case fpcNameRead` has F=Name, fpcTypeRead→DataType, fpcDescRead→Description, fpcDefaultRead→Default (a case list mixing two read contexts cannot satisfy both); and within one switch the Description and Default arms append the same text")
		fd, pk := c.MustFunc("R23d", "lang", "", "ParseMxFunctionParameters")
		if fd == nil {
			return
		}
		info := pk.TypesInfo
		want := map[string]string{"fpcNameRead": "Name", "fpcTypeRead": "DataType", "fpcDescRead": "Description", "fpcDefaultRead": "Default"}
		// ctxConst: e names one of the package-level context constants
		ctxConst := func(e ast.Expr) (string, bool) {
			id, ok := unparen(e).(*ast.Ident)
			if !ok {
				return "", false
			}
			k, ok := info.ObjectOf(id).(*types.Const)
			if !ok || k.Pkg() == nil || k.Pkg().Path() != mx("lang") || k.Parent() != k.Pkg().Scope() {
				return "", false
			}
			return k.Name(), true
		}
		// accumulation: `X.F += e` or `X.F = X.F + e` with F a field of MurexFuncParam
		accum := func(st ast.Stmt) (field string, rhs ast.Expr, ok bool) {
			as, isAs := st.(*ast.AssignStmt)
			if !isAs || len(as.Lhs) != 1 || len(as.Rhs) != 1 {
				return "", nil, false
			}
			v, owner := fieldOf(info, as.Lhs[0])
			if v == nil || owner != c23FuncParamT {
				return "", nil, false
			}
			switch as.Tok {
			case token.ADD_ASSIGN:
				return v.Name(), as.Rhs[0], true
			case token.ASSIGN:
				if be, isBin := unparen(as.Rhs[0]).(*ast.BinaryExpr); isBin && be.Op == token.ADD && c.sameExpr(unparen(be.X), unparen(as.Lhs[0])) {
					return v.Name(), be.Y, true
				}
			}
			return "", nil, false
		}
		// appended text, normalised: constants by value; string([]rune{x}) ≡ string(x)
		var norm func(e ast.Expr) string
		norm = func(e ast.Expr) string {
			e = unparen(e)
			if s, ok := constString(info, e); ok {
				return "const:" + s
			}
			if call, ok := e.(*ast.CallExpr); ok && len(call.Args) == 1 {
				if tv, isT := info.Types[call.Fun]; isT && tv.IsType() {
					if b, isB := tv.Type.Underlying().(*types.Basic); isB && b.Kind() == types.String {
						arg := unparen(call.Args[0])
						if cl, isCL := arg.(*ast.CompositeLit); isCL && len(cl.Elts) == 1 {
							if sl, isSl := info.TypeOf(cl).Underlying().(*types.Slice); isSl {
								if eb, isEB := sl.Elem().Underlying().(*types.Basic); isEB && eb.Kind() == types.Int32 {
									arg = unparen(cl.Elts[0])
								}
							}
						}
						return "string(" + c.src(arg) + ")"
					}
				}
			}
			return c.src(e)
		}
		n, nPairs, nDropped := 0, 0, 0
		ast.Inspect(fd.Body, func(nd ast.Node) bool {
			sw, ok := nd.(*ast.SwitchStmt)
			if !ok || sw.Tag == nil {
				return true
			}
			// a switch over the parser context: some case names a context constant
			isCtx := false
			for _, s := range sw.Body.List {
				for _, e := range s.(*ast.CaseClause).List {
					if _, ok := ctxConst(e); ok {
						isCtx = true
					}
				}
			}
			if !isCtx {
				return true
			}
			appended := map[string]string{} // context -> appended text (normalised) in this switch
			shown := map[string]string{}
			for _, s := range sw.Body.List {
				cc := s.(*ast.CaseClause)
				var ctxs []string
				for _, e := range cc.List {
					if name, ok := ctxConst(e); ok {
						ctxs = append(ctxs, name)
					}
				}
				for _, st := range cc.Body {
					field, rhs, ok := accum(st)
					if !ok {
						continue
					}
					for _, ctx := range ctxs {
						w, isRead := want[ctx]
						if !isRead {
							continue
						}
						n++
						c.Check(w == field, "R23d", "accumulate:"+ctx+"→"+field+"#"+itoa(n), st.Pos(), "in context %s the text is appended to .%s (that context's field is .%s): otherwise characters of a %s end up in another field of the signature", ctx, field, w, strings.TrimSuffix(strings.TrimPrefix(ctx, "fpc"), "Read"))
						appended[ctx] = norm(rhs)
						shown[ctx] = c.src(rhs)
					}
				}
			}
			if d, ok1 := appended["fpcDescRead"]; ok1 {
				if f, ok2 := appended["fpcDefaultRead"]; ok2 {
					nPairs++
					c.Check(d == f, "R23d", "siblings#"+itoa(nPairs), sw.Pos(), "the Description and Default arms of this switch append the same text (%s vs %s)", shown["fpcDescRead"], shown["fpcDefaultRead"])
				}
			}
			// a rune that is kept as text in one free-text context must not fall through the other one:
			// the other free-text context either appends too or has an arm of its own (the rune is its
			// terminator / a state change). No arm at all means the rune silently disappears there.
			hasArm := map[string]bool{}
			for _, st := range sw.Body.List {
				cc := st.(*ast.CaseClause)
				for _, e := range cc.List {
					if name, ok := ctxConst(e); ok {
						hasArm[name] = true
					}
				}
				if cc.List == nil {
					// a default arm that tests the context itself (`default: if context != fpcDefaultRead
					// { return error }; context++`) is an arm for the contexts it names
					for _, b := range cc.Body {
						ast.Inspect(b, func(x ast.Node) bool {
							if e, ok := x.(ast.Expr); ok {
								if name, ok := ctxConst(e); ok {
									hasArm[name] = true
								}
							}
							return true
						})
					}
				}
			}
			for _, pr := range [][2]string{{"fpcDescRead", "fpcDefaultRead"}, {"fpcDefaultRead", "fpcDescRead"}} {
				if _, kept := appended[pr[0]]; kept && !hasArm[pr[1]] {
					nDropped++
					c.Viol("R23d", "dropped-in:"+pr[1]+"#"+itoa(nDropped), sw.Pos(), "this switch keeps the rune as text in context %s (appends %s) but has no arm for %s: there the rune falls to the default and disappears from the %s", pr[0], shown[pr[0]], pr[1], strings.TrimSuffix(strings.TrimPrefix(pr[1], "fpc"), "Read"))
				}
			}
			return true
		})
		c.MinCount("R23d", "context-accumulation statements", n, 12)
		c.MinCount("R23d", "switches with both free-text arms", nPairs, 5)
	})
}
