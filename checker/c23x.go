package main

import (
	"go/ast"
	"go/token"
	"strings"
)

func init() {
	extend("C23", func(c *Ctx) {
		c.Rule("R23d", "signature parser state machine: inside ParseMxFunctionParameters text read in a context is accumulated into that context's own field — every `mfp[counter].F += …` under `case fpcNameRead` has F=Name, fpcTypeRead→DataType, fpcDescRead→Description, fpcDefaultRead→Default (a case list mixing two read contexts cannot satisfy both); and within one switch the Description and Default arms append the same text")
		fd, pk := c.MustFunc("R23d", "lang", "", "ParseMxFunctionParameters")
		if fd == nil {
			return
		}
		info := pk.TypesInfo
		want := map[string]string{"fpcNameRead": "Name", "fpcTypeRead": "DataType", "fpcDescRead": "Description", "fpcDefaultRead": "Default"}
		n, nPairs := 0, 0
		ast.Inspect(fd.Body, func(nd ast.Node) bool {
			sw, ok := nd.(*ast.SwitchStmt)
			if !ok || sw.Tag == nil {
				return true
			}
			if id, ok := unparen(sw.Tag).(*ast.Ident); !ok || id.Name != "context" {
				return true
			}
			appended := map[string]string{} // context -> appended text (source) in this switch
			for _, s := range sw.Body.List {
				cc := s.(*ast.CaseClause)
				var ctxs []string
				for _, e := range cc.List {
					if id, ok := unparen(e).(*ast.Ident); ok {
						ctxs = append(ctxs, id.Name)
					}
				}
				for _, st := range cc.Body {
					as, ok := st.(*ast.AssignStmt)
					if !ok || as.Tok != token.ADD_ASSIGN || len(as.Lhs) != 1 {
						continue
					}
					se, ok := as.Lhs[0].(*ast.SelectorExpr)
					if !ok || !strings.HasPrefix(c.src(se.X), "mfp[") {
						continue
					}
					field := se.Sel.Name
					for _, ctx := range ctxs {
						w, isRead := want[ctx]
						if !isRead {
							continue
						}
						n++
						c.Check(w == field, "R23d", "accumulate:"+ctx+"→"+field+"#"+itoa(n), as.Pos(), "in context %s the text is appended to .%s (that context's field is .%s): otherwise characters of a %s end up in another field of the signature", ctx, field, w, strings.TrimSuffix(strings.TrimPrefix(ctx, "fpc"), "Read"))
						appended[ctx] = c.src(as.Rhs[0])
					}
				}
			}
			if d, ok1 := appended["fpcDescRead"]; ok1 {
				if f, ok2 := appended["fpcDefaultRead"]; ok2 {
					nPairs++
					c.Check(d == f, "R23d", "siblings#"+itoa(nPairs), sw.Pos(), "the Description and Default arms of this switch append the same text (%s vs %s)", d, f)
				}
			}
			return true
		})
		_ = info
		c.MinCount("R23d", "context-accumulation statements", n, 18)
		c.MinCount("R23d", "switches with both free-text arms", nPairs, 5)
	})
}
