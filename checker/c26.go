package main

import (
	"go/ast"
	"go/token"
	"go/types"
)

func init() {
	register("C26", "Decides structural necessary conditions of 'named-pipe operations in any order never crash or corrupt the shell': every access to the registry map holds the registry mutex (lockset); every act on an entry (insert, delete, method call on the entry's pipe, hand-out) is justified by an existence check of the same key in the same critical section (no unlock between check and act), which also gives name uniqueness and 'missing pipe ⇒ error'; the asynchronous close re-checks after its grace period and removes the entry; Close hands exactly its own (registry, name) to the delayed closer. Does NOT decide timing (the grace period) nor the behaviour of the pipe implementations.", runC26)
}

const pipesPkg = "lang/pipes"

var namedT = mx(pipesPkg) + ".Named"

// csCheck describes how an act is justified inside a critical section.
type csCheck struct {
	Found   bool
	SameCS  bool
	NonNil  bool // the check establishes entry != nil at the act (else: == nil)
	CheckAt token.Pos
}

// entryNilCheck: does cond (with truth) establish that m[key].<field> is nil / non-nil?
// returns (matches, nonNil)
func (c *Ctx) entryNilCheck(info *types.Info, cond ast.Expr, truth bool, isEntry func(ast.Expr) bool) (bool, bool) {
	for _, f := range factsOf([]Guard{{Cond: cond, Neg: !truth}}) {
		b, ok := unparen(f.E).(*ast.BinaryExpr)
		if !ok || (b.Op != token.EQL && b.Op != token.NEQ) {
			// comma-ok form handled by caller
			continue
		}
		x, y := unparen(b.X), unparen(b.Y)
		if id, ok := x.(*ast.Ident); ok && id.Name == "nil" {
			x, y = y, x
		}
		if id, ok := y.(*ast.Ident); !ok || id.Name != "nil" {
			continue
		}
		if !isEntry(x) {
			continue
		}
		nonNil := (b.Op == token.NEQ) == f.True
		return true, nonNil
	}
	return false, false
}

// checkThenAct walks backwards from act over the statements that dominate it
// in structured code until the Lock() that opens its critical section.
func (c *Ctx) checkThenAct(info *types.Info, fd *ast.FuncDecl, act ast.Node, isEntry func(ast.Expr) bool) csCheck {
	stack := pathTo(fd.Body, act)
	res := csCheck{}
	// child is the node in stack below the container
	for i := len(stack) - 1; i >= 1; i-- {
		child := stack[i]
		parent := stack[i-1]
		var list []ast.Stmt
		switch p := parent.(type) {
		case *ast.BlockStmt:
			list = p.List
		case *ast.CaseClause:
			list = p.Body
		case *ast.CommClause:
			list = p.Body
		case *ast.IfStmt:
			if child == ast.Node(p.Body) {
				if m, nn := c.entryNilCheck(info, p.Cond, true, isEntry); m {
					res.Found, res.NonNil, res.CheckAt, res.SameCS = true, nn, p.Pos(), true
					return res
				}
			} else if p.Else != nil && child == ast.Node(p.Else) {
				if m, nn := c.entryNilCheck(info, p.Cond, false, isEntry); m {
					res.Found, res.NonNil, res.CheckAt, res.SameCS = true, nn, p.Pos(), true
					return res
				}
			}
			continue
		case *ast.GoStmt, *ast.FuncLit:
			// a new goroutine / closure starts with no lock and no knowledge
			return res
		default:
			continue
		}
		idx := -1
		for k, s := range list {
			if ast.Node(s) == child {
				idx = k
			}
		}
		for k := idx - 1; k >= 0; k-- {
			switch s := list[k].(type) {
			case *ast.ExprStmt:
				if call, ok := s.X.(*ast.CallExpr); ok {
					if _, op := mutexOp(info, call); op == "Lock" || op == "RLock" {
						return res // start of the critical section, no check found
					} else if op == "Unlock" || op == "RUnlock" {
						// lock released on the straight-line path before the act
						res.SameCS = false
						// keep looking for a check only to explain the finding
						for kk := k - 1; kk >= 0; kk-- {
							if is, ok := list[kk].(*ast.IfStmt); ok {
								if m, nn := c.entryNilCheck(info, is.Cond, false, isEntry); m && is.Else == nil && terminates(info, is.Body.List) {
									res.Found, res.NonNil, res.CheckAt = true, nn, is.Pos()
								}
							}
						}
						return res
					}
				}
			case *ast.IfStmt:
				if s.Else == nil && terminates(info, s.Body.List) {
					if m, nn := c.entryNilCheck(info, s.Cond, false, isEntry); m {
						res.Found, res.NonNil, res.CheckAt, res.SameCS = true, nn, s.Pos(), true
						return res
					}
				}
			case *ast.LabeledStmt:
				// a label is a join point: what precedes it does not dominate
				if es, ok := s.Stmt.(*ast.ExprStmt); ok {
					if call, ok := es.X.(*ast.CallExpr); ok {
						if _, op := mutexOp(info, call); op == "Lock" {
							return res
						}
					}
				}
			}
		}
	}
	return res
}

func runC26(c *Ctx) {
	c.Load(pipesPkg, "builtins/core/pipe")
	pk := c.Pkg(pipesPkg)
	info := pk.TypesInfo

	c.Rule("R26a", "E1 lockset: Named.pipes is read and written only with Named.mutex held (constructor exempt)")
	n := c.runLockset("R26a", LockSpec{Pkg: pipesPkg, Type: "Named", Mutex: "mutex", Fields: []string{"pipes"}})
	c.MinCount("R26a", "guarded accesses to Named.pipes", n, 14)

	c.Rule("R26e", "lock balance: every function of lang/pipes releases the registry mutex on every path to an exit (or defers the unlock); a path that returns with the mutex held blocks every later named-pipe operation")
	nb := c.runLockBalance("R26e", []string{pipesPkg}, nil)
	c.MinCount("R26e", "functions that take the registry lock", nb, 7)

	c.Rule("R26b", "check-then-act: every insert into the registry is justified by `entry == nil` for the same key, every delete / method call on the entry's pipe / hand-out of the pipe by `entry != nil`, established in the same critical section (no Unlock between the check and the act)")
	c.Rule("R26c", "map-miss dereference: a method call on pipes[k].Pipe (nil interface when k is absent) is dominated by a non-nil check in the same critical section; in a `go` function without recover a violation kills the shell")
	nActs := 0
	eachFunc(pk, func(fd *ast.FuncDecl) {
		if fd.Name.Name == "NewNamed" {
			return
		}
		// key expression equality: isEntry(e) ⇔ e is <base>.pipes[<key>].Pipe with the act's key
		ast.Inspect(fd.Body, func(nd ast.Node) bool {
			var key ast.Expr
			var kind, rule string
			var act ast.Node
			wantNonNil := true
			switch s := nd.(type) {
			case *ast.AssignStmt:
				for _, l := range s.Lhs {
					if ix, ok := unparen(l).(*ast.IndexExpr); ok && isField(info, ix.X, namedT, "pipes") {
						key, kind, rule, act, wantNonNil = ix.Index, "insert", "R26b", s, false
					}
				}
				// hand-out: p := n.pipes[name].Pipe
				if key == nil {
					for _, r := range s.Rhs {
						if se, ok := unparen(r).(*ast.SelectorExpr); ok && se.Sel.Name == "Pipe" {
							if ix, ok := unparen(se.X).(*ast.IndexExpr); ok && isField(info, ix.X, namedT, "pipes") {
								key, kind, rule, act = ix.Index, "hand-out", "R26b", s
							}
						}
					}
				}
			case *ast.CallExpr:
				if dc, ok := isBuiltinCall(info, s, "delete"); ok && len(dc.Args) == 2 && isField(info, dc.Args[0], namedT, "pipes") {
					key, kind, rule, act = dc.Args[1], "delete", "R26b", s
				} else if se, ok := s.Fun.(*ast.SelectorExpr); ok {
					if inner, ok := unparen(se.X).(*ast.SelectorExpr); ok && inner.Sel.Name == "Pipe" {
						if ix, ok := unparen(inner.X).(*ast.IndexExpr); ok && isField(info, ix.X, namedT, "pipes") {
							key, kind, rule, act = ix.Index, "call:"+se.Sel.Name, "R26c", s
						}
					}
				}
			}
			if key == nil {
				return true
			}
			nActs++
			isEntry := func(e ast.Expr) bool {
				se, ok := unparen(e).(*ast.SelectorExpr)
				if !ok || se.Sel.Name != "Pipe" {
					return false
				}
				ix, ok := unparen(se.X).(*ast.IndexExpr)
				return ok && isField(info, ix.X, namedT, "pipes") && c.sameExpr(ix.Index, key)
			}
			r := c.checkThenAct(info, fd, act, isEntry)
			k := fd.Name.Name + ":" + kind
			switch {
			case !r.Found:
				c.Viol(rule, k, act.Pos(), "%s on the registry entry for key %s without an existence check of that key in this critical section: a missing / concurrently removed pipe is %s", kind, c.src(key), map[bool]string{true: "dereferenced (nil interface call → panic)", false: "overwritten or acted upon"}[rule == "R26c"])
			case !r.SameCS:
				c.Viol(rule, k, act.Pos(), "%s on key %s happens after the mutex was released following the check at %s: another operation can remove or create the pipe in between (check-then-act race)", kind, c.src(key), c.pos(r.CheckAt))
			case r.NonNil != wantNonNil:
				c.Viol(rule, k, act.Pos(), "%s on key %s is reached when the entry is known %s; it needs the opposite", kind, c.src(key), map[bool]string{true: "present", false: "absent"}[r.NonNil])
			default:
				c.OK(rule, k, act.Pos(), "%s justified by the existence check at %s in the same critical section", kind, c.pos(r.CheckAt))
			}
			return true
		})
	})
	c.MinCount("R26b", "acts on registry entries", nActs, 6)

	c.Rule("R26d", "operations on a missing pipe return an error: the `entry == nil` early exits of Close, Delete and Get return a non-nil error; Close starts the delayed closer with its own receiver and name only on its success path; the delayed closer removes the entry after closing it")
	for _, name := range []string{"Close", "Delete", "Get"} {
		fd, _ := c.MustFunc("R26d", pipesPkg, "Named", name)
		if fd == nil {
			continue
		}
		found := false
		walkStack(fd.Body, func(nd ast.Node, stack []ast.Node) bool {
			is, ok := nd.(*ast.IfStmt)
			if !ok {
				return true
			}
			m, nn := c.entryNilCheck(info, is.Cond, true, func(e ast.Expr) bool {
				se, ok := unparen(e).(*ast.SelectorExpr)
				if !ok || se.Sel.Name != "Pipe" {
					return false
				}
				ix, ok := unparen(se.X).(*ast.IndexExpr)
				return ok && isField(info, ix.X, namedT, "pipes")
			})
			if !m || nn {
				return true
			}
			// every return inside this arm returns a non-nil error (last result)
			okRet, nRet := true, 0
			ast.Inspect(is.Body, func(x ast.Node) bool {
				if rs, ok := x.(*ast.ReturnStmt); ok {
					nRet++
					if len(rs.Results) == 0 {
						okRet = false
					} else if id, ok := unparen(rs.Results[len(rs.Results)-1]).(*ast.Ident); ok && id.Name == "nil" {
						okRet = false
					}
				}
				return true
			})
			if nRet > 0 {
				found = true
				c.Check(okRet, "R26d", name+":missing-returns-error", is.Pos(), "Named.%s returns an error when the pipe does not exist", name)
			}
			return true
		})
		if !found {
			c.Viol("R26d", name+":missing-returns-error", fd.Pos(), "Named.%s has no `entry == nil ⇒ return error` exit", name)
		}
	}
	if fd, _ := c.MustFunc("R26d", pipesPkg, "Named", "Close"); fd != nil {
		var params []types.Object
		for _, f := range fd.Type.Params.List {
			for _, nm := range f.Names {
				params = append(params, info.Defs[nm])
			}
		}
		ok := false
		var pos token.Pos = fd.Pos()
		for _, s := range fd.Body.List {
			if g, isGo := s.(*ast.GoStmt); isGo && callIs(info, g.Call, mx(pipesPkg), "", "closePipe") && len(g.Call.Args) == 2 {
				a0, ok0 := unparen(g.Call.Args[0]).(*ast.Ident)
				a1, ok1 := unparen(g.Call.Args[1]).(*ast.Ident)
				if ok0 && ok1 && a0.Name == recvVar(fd) && len(params) == 1 && info.ObjectOf(a1) == params[0] {
					ok = true
					pos = g.Pos()
				}
			}
		}
		c.Check(ok, "R26d", "Close:delayed-closer", pos, "Close starts `go closePipe(n, name)` with its own registry and name at its top level (after the error exits)")
	}
	if fd, _ := c.MustFunc("R26d", pipesPkg, "", "closePipe"); fd != nil {
		closes, deletes := token.NoPos, token.NoPos
		ast.Inspect(fd.Body, func(x ast.Node) bool {
			if call, ok := x.(*ast.CallExpr); ok {
				if se, ok := call.Fun.(*ast.SelectorExpr); ok && se.Sel.Name == "Close" {
					closes = call.Pos()
				}
				if dc, ok := isBuiltinCall(info, call, "delete"); ok && len(dc.Args) == 2 && isField(info, dc.Args[0], namedT, "pipes") {
					deletes = call.Pos()
				}
			}
			return true
		})
		c.Check(closes != token.NoPos && deletes != token.NoPos && closes < deletes, "R26d", "closePipe:close-then-remove", fd.Pos(), "the delayed closer closes the pipe and then removes the entry (a closed pipe disappears after its grace period)")
	}
	// the null pipe is never closed or deleted
	for _, name := range []string{"Close", "Delete"} {
		if fd, _ := c.FuncDecl(pipesPkg, "Named", name); fd != nil {
			found := false
			ast.Inspect(fd.Body, func(x ast.Node) bool {
				if is, ok := x.(*ast.IfStmt); ok {
					if b, ok := unparen(is.Cond).(*ast.BinaryExpr); ok && b.Op == token.EQL {
						if s, ok := constString(info, b.Y); ok && s == "null" && terminates(info, is.Body.List) {
							found = true
						}
					}
				}
				return true
			})
			c.Check(found, "R26d", name+":null-protected", fd.Pos(), "Named.%s refuses the built-in `null` pipe", name)
		}
	}
}
