package main

import (
	"go/ast"
	"go/token"
	"go/types"
)

func init() {
	register("C26", "Decides structural necessary conditions of 'named-pipe operations in any order never crash or corrupt the shell': every access to the registry map holds the registry mutex (lockset); every act on an entry (insert, delete, method call on the entry's pipe, hand-out) is justified by an existence check of the same key in the same critical section (no unlock between check and act), which also gives name uniqueness and 'missing pipe ⇒ error'; the asynchronous close re-checks after its grace period and removes the entry; Close hands exactly its own (registry, name) to the delayed closer. Does NOT decide timing (the grace period) nor the behaviour of the pipe implementations.", runC26)
}

const pipesPkg = "lang/pipes"

var namedT = mx(pipesPkg) + ".Named"

// csCheck describes how an act is justified inside a critical section.
type csCheck struct {
	Found   bool
	SameCS  bool
	NonNil  bool // the check establishes entry != nil at the act (else: == nil)
	CheckAt token.Pos
}

// entryNilCheck: does cond (with truth) establish that m[key].<field> is nil / non-nil?
// returns (matches, nonNil)
func (c *Ctx) entryNilCheck(info *types.Info, cond ast.Expr, truth bool, isEntry func(ast.Expr) bool) (bool, bool) {
	for _, f := range factsOf([]Guard{{Cond: cond, Neg: !truth}}) {
		b, ok := unparen(f.E).(*ast.BinaryExpr)
		if !ok || (b.Op != token.EQL && b.Op != token.NEQ) {
			// comma-ok form handled by caller
			continue
		}
		x, y := unparen(b.X), unparen(b.Y)
		if id, ok := x.(*ast.Ident); ok && id.Name == "nil" {
			x, y = y, x
		}
		if id, ok := y.(*ast.Ident); !ok || id.Name != "nil" {
			continue
		}
		if !isEntry(x) {
			continue
		}
		nonNil := (b.Op == token.NEQ) == f.True
		return true, nonNil
	}
	return false, false
}

// checkThenAct walks backwards from act over the statements that dominate it
// in structured code until the Lock() that opens its critical section.
func (c *Ctx) checkThenAct(info *types.Info, fd *ast.FuncDecl, act ast.Node, isEntry func(ast.Expr) bool) csCheck {
	stack := pathTo(fd.Body, act)
	res := csCheck{}
	// child is the node in stack below the container
	for i := len(stack) - 1; i >= 1; i-- {
		child := stack[i]
		parent := stack[i-1]
		var list []ast.Stmt
		switch p := parent.(type) {
		case *ast.BlockStmt:
			list = p.List
		case *ast.CaseClause:
			list = p.Body
		case *ast.CommClause:
			list = p.Body
		case *ast.IfStmt:
			if child == ast.Node(p.Body) {
				if m, nn := c.entryNilCheck(info, p.Cond, true, isEntry); m {
					res.Found, res.NonNil, res.CheckAt, res.SameCS = true, nn, p.Pos(), true
					return res
				}
			} else if p.Else != nil && child == ast.Node(p.Else) {
				if m, nn := c.entryNilCheck(info, p.Cond, false, isEntry); m {
					res.Found, res.NonNil, res.CheckAt, res.SameCS = true, nn, p.Pos(), true
					return res
				}
			}
			continue
		case *ast.GoStmt, *ast.FuncLit:
			// a new goroutine / closure starts with no lock and no knowledge
			return res
		default:
			continue
		}
		idx := -1
		for k, s := range list {
			if ast.Node(s) == child {
				idx = k
			}
		}
		for k := idx - 1; k >= 0; k-- {
			switch s := list[k].(type) {
			case *ast.ExprStmt:
				if call, ok := s.X.(*ast.CallExpr); ok {
					if _, op := mutexOp(info, call); op == "Lock" || op == "RLock" {
						return res // start of the critical section, no check found
					} else if op == "Unlock" || op == "RUnlock" {
						// lock released on the straight-line path before the act
						res.SameCS = false
						// keep looking for a check only to explain the finding
						for kk := k - 1; kk >= 0; kk-- {
							if is, ok := list[kk].(*ast.IfStmt); ok {
								if m, nn := c.entryNilCheck(info, is.Cond, false, isEntry); m && is.Else == nil && terminates(info, is.Body.List) {
									res.Found, res.NonNil, res.CheckAt = true, nn, is.Pos()
								}
							}
						}
						return res
					}
				}
			case *ast.IfStmt:
				if s.Else == nil && terminates(info, s.Body.List) {
					if m, nn := c.entryNilCheck(info, s.Cond, false, isEntry); m {
						res.Found, res.NonNil, res.CheckAt, res.SameCS = true, nn, s.Pos(), true
						return res
					}
				}
			case *ast.LabeledStmt:
				// a label is a join point: what precedes it does not dominate
				if es, ok := s.Stmt.(*ast.ExprStmt); ok {
					if call, ok := es.X.(*ast.CallExpr); ok {
						if _, op := mutexOp(info, call); op == "Lock" {
							return res
						}
					}
				}
			}
		}
	}
	return res
}

func runC26(c *Ctx) {
	c.Load(pipesPkg, "builtins/core/pipe")
	pk := c.Pkg(pipesPkg)
	info := pk.TypesInfo

	c.Rule("R26a", "E1 lockset: Named.pipes is read and written only with Named.mutex held (constructor exempt)")
	n := c.runLockset("R26a", LockSpec{Pkg: pipesPkg, Type: "Named", Mutex: "mutex", Fields: []string{"pipes"}})
	c.MinCount("R26a", "guarded accesses to Named.pipes", n, 14)

	c.Rule("R26e", "lock balance: every function of lang/pipes releases the registry mutex on every path to an exit (or defers the unlock); a path that returns with the mutex held blocks every later named-pipe operation")
	nb := c.runLockBalance("R26e", []string{pipesPkg}, nil)
	c.MinCount("R26e", "functions that take the registry lock", nb, 7)

	c.Rule("R26b", "check-then-act: every insert into the registry is justified by `entry == nil` for the same key, every delete / method call on the entry's pipe / hand-out of the pipe by `entry != nil`, established in the same critical section (no Unlock between the check and the act)")
	c.Rule("R26c", "map-miss dereference: a method call on pipes[k].Pipe (nil interface when k is absent) is dominated by a non-nil check in the same critical section; in a `go` function without recover a violation kills the shell")
	nActs := 0
	eachFunc(pk, func(fd *ast.FuncDecl) {
		if fd.Name.Name == "NewNamed" {
			return
		}
		// key expression equality: isEntry(e) ⇔ e is <base>.pipes[<key>].Pipe with the act's key
		defs := localDefs(info, fd.Body)
		returned := returnedLocals(info, fd)
		ast.Inspect(fd.Body, func(nd ast.Node) bool {
			var key ast.Expr
			var kind, rule string
			var act ast.Node
			wantNonNil := true
			switch s := nd.(type) {
			case *ast.AssignStmt:
				for _, l := range s.Lhs {
					if ix, ok := unparen(l).(*ast.IndexExpr); ok && isField(info, ix.X, namedT, "pipes") {
						key, kind, rule, act, wantNonNil = ix.Index, "insert", "R26b", s, false
					}
				}
				// hand-out: p := n.pipes[name].Pipe … return p. A load into a local that never leaves the function
				// (`p := n.pipes[name].Pipe; if p != nil { p.Close() … }`) is not a hand-out: its uses are the acts.
				if key == nil && len(s.Lhs) == len(s.Rhs) {
					for i, r := range s.Rhs {
						if se, ok := unparen(r).(*ast.SelectorExpr); ok && se.Sel.Name == "Pipe" {
							if ix, ok := unparen(se.X).(*ast.IndexExpr); ok && isField(info, ix.X, namedT, "pipes") {
								if id, isId := s.Lhs[i].(*ast.Ident); isId && info.ObjectOf(id) != nil && !returned[info.ObjectOf(id)] && len(defs[info.ObjectOf(id)]) == 1 {
									continue
								}
								key, kind, rule, act = ix.Index, "hand-out", "R26b", s
							}
						}
					}
				}
			case *ast.CallExpr:
				if dc, ok := isBuiltinCall(info, s, "delete"); ok && len(dc.Args) == 2 && isField(info, dc.Args[0], namedT, "pipes") {
					key, kind, rule, act = dc.Args[1], "delete", "R26b", s
				} else if se, ok := s.Fun.(*ast.SelectorExpr); ok {
					// method call on the entry's pipe: n.pipes[k].Pipe.M(), or p.M() with p := n.pipes[k].Pipe
					if k, _, ok := pipeEntryOf(info, defs, se.X); ok {
						if _, isMethod := callee(info, s).(*types.Func); isMethod {
							key, kind, rule, act = k, "call:"+se.Sel.Name, "R26c", s
						}
					}
				}
			}
			if key == nil {
				return true
			}
			nActs++
			var viaDef ast.Expr // the check tests a local snapshot of the entry taken at this definition
			isEntry := func(e ast.Expr) bool {
				k, def, ok := pipeEntryOf(info, defs, e)
				if !ok || !c.sameExpr(k, key) {
					return false
				}
				viaDef = def
				return true
			}
			r := c.checkThenAct(info, fd, act, isEntry)
			if r.Found && r.SameCS && viaDef != nil && !c.lockHeldBetween(info, fd, viaDef, act) {
				// the snapshot was taken in another critical section than the act it justifies
				r.SameCS = false
			}
			k := fd.Name.Name + ":" + kind
			switch {
			case !r.Found:
				c.Viol(rule, k, act.Pos(), "%s on the registry entry for key %s without an existence check of that key in this critical section: a missing / concurrently removed pipe is %s", kind, c.src(key), map[bool]string{true: "dereferenced (nil interface call → panic)", false: "overwritten or acted upon"}[rule == "R26c"])
			case !r.SameCS:
				c.Viol(rule, k, act.Pos(), "%s on key %s happens after the mutex was released following the check at %s: another operation can remove or create the pipe in between (check-then-act race)", kind, c.src(key), c.pos(r.CheckAt))
			case r.NonNil != wantNonNil:
				c.Viol(rule, k, act.Pos(), "%s on key %s is reached when the entry is known %s; it needs the opposite", kind, c.src(key), map[bool]string{true: "present", false: "absent"}[r.NonNil])
			default:
				c.OK(rule, k, act.Pos(), "%s justified by the existence check at %s in the same critical section", kind, c.pos(r.CheckAt))
			}
			return true
		})
	})
	c.MinCount("R26b", "acts on registry entries", nActs, 6)

	c.Rule("R26d", "operations on a missing pipe return an error: the `entry == nil` early exits of Close, Delete and Get return a non-nil error; Close starts the delayed closer with its own receiver and name only on its success path; the delayed closer removes the entry after closing it")
	for _, name := range []string{"Close", "Delete", "Get"} {
		fd, _ := c.MustFunc("R26d", pipesPkg, "Named", name)
		if fd == nil {
			continue
		}
		// every return reached with the entry known absent — `entry == nil` arm, switch case, else branch or the
		// code after an `if entry != nil { … return }` exit; nil on either side; entry possibly through a local —
		// returns a non-nil error (last result)
		found := false
		defs := localDefs(info, fd.Body)
		okRet, firstPos := true, token.NoPos
		walkStack(fd.Body, func(nd ast.Node, stack []ast.Node) bool {
			if _, isLit := nd.(*ast.FuncLit); isLit {
				return false
			}
			rs, ok := nd.(*ast.ReturnStmt)
			if !ok {
				return true
			}
			missing := false
			for _, f := range factsOf(guardsAt(info, stack)) {
				if x, isNil, ok := nilTestFact(info, f); ok && isNil {
					if _, _, isE := pipeEntryOf(info, defs, x); isE {
						missing = true
					}
				}
			}
			if !missing {
				return true
			}
			found = true
			if firstPos == token.NoPos {
				firstPos = rs.Pos()
			}
			if len(rs.Results) == 0 {
				okRet = false
			} else if id, ok := unparen(rs.Results[len(rs.Results)-1]).(*ast.Ident); ok && id.Name == "nil" {
				okRet = false
			}
			return true
		})
		if found {
			c.Check(okRet, "R26d", name+":missing-returns-error", firstPos, "Named.%s returns an error when the pipe does not exist", name)
		}
		if !found {
			c.Viol("R26d", name+":missing-returns-error", fd.Pos(), "Named.%s has no `entry == nil ⇒ return error` exit", name)
		}
	}
	if fd, _ := c.MustFunc("R26d", pipesPkg, "Named", "Close"); fd != nil {
		var params []types.Object
		for _, f := range fd.Type.Params.List {
			for _, nm := range f.Names {
				params = append(params, info.Defs[nm])
			}
		}
		ok := false
		var pos token.Pos = fd.Pos()
		// the go statement may sit anywhere in Close (R26g proves that every success return lies behind it) and
		// may wrap the call in a function literal: `go closePipe(n, name)` / `go func() { closePipe(n, name) }()`
		ast.Inspect(fd.Body, func(nd ast.Node) bool {
			g, isGo := nd.(*ast.GoStmt)
			if !isGo {
				return true
			}
			cands := []*ast.CallExpr{g.Call}
			if lit, isLit := unparen(g.Call.Fun).(*ast.FuncLit); isLit && len(g.Call.Args) == 0 {
				cands = calls(lit.Body, false)
			}
			for _, cl := range cands {
				if !callIs(info, cl, mx(pipesPkg), "", "closePipe") || len(cl.Args) != 2 {
					continue
				}
				a0, ok0 := unparen(cl.Args[0]).(*ast.Ident)
				a1, ok1 := unparen(cl.Args[1]).(*ast.Ident)
				if ok0 && ok1 && a0.Name == recvVar(fd) && len(params) == 1 && info.ObjectOf(a1) == params[0] {
					ok = true
					pos = g.Pos()
				}
			}
			return true
		})
		c.Check(ok, "R26d", "Close:delayed-closer", pos, "Close starts `go closePipe(n, name)` with its own registry and name at its top level (after the error exits)")
	}
	if fd, _ := c.MustFunc("R26d", pipesPkg, "", "closePipe"); fd != nil {
		closes, deletes := token.NoPos, token.NoPos
		ast.Inspect(fd.Body, func(x ast.Node) bool {
			if call, ok := x.(*ast.CallExpr); ok {
				if se, ok := call.Fun.(*ast.SelectorExpr); ok && se.Sel.Name == "Close" {
					closes = call.Pos()
				}
				if dc, ok := isBuiltinCall(info, call, "delete"); ok && len(dc.Args) == 2 && isField(info, dc.Args[0], namedT, "pipes") {
					deletes = call.Pos()
				}
			}
			return true
		})
		c.Check(closes != token.NoPos && deletes != token.NoPos && closes < deletes, "R26d", "closePipe:close-then-remove", fd.Pos(), "the delayed closer closes the pipe and then removes the entry (a closed pipe disappears after its grace period)")
	}
	// the null pipe is never closed or deleted
	for _, name := range []string{"Close", "Delete"} {
		if fd, _ := c.FuncDecl(pipesPkg, "Named", name); fd != nil {
			found := false
			// a return guarded by `<name> == "null"` (if arm, switch case, either operand order)
			walkStack(fd.Body, func(x ast.Node, stack []ast.Node) bool {
				if _, ok := x.(*ast.ReturnStmt); !ok {
					return true
				}
				for _, f := range factsOf(guardsAt(info, stack)) {
					if b, ok := unparen(f.E).(*ast.BinaryExpr); ok && ((b.Op == token.EQL && f.True) || (b.Op == token.NEQ && !f.True)) {
						for _, side := range []ast.Expr{b.X, b.Y} {
							if s, ok := constString(info, side); ok && s == "null" {
								found = true
							}
						}
					}
				}
				return true
			})
			c.Check(found, "R26d", name+":null-protected", fd.Pos(), "Named.%s refuses the built-in `null` pipe", name)
		}
	}
}

// pipeEntryOf: e denotes <registry>.pipes[key].Pipe — written out, or a single-definition local initialised with
// it (`p := n.pipes[name].Pipe`), or `x.Pipe` with x a single-definition local initialised with
// <registry>.pipes[key]. def is the defining expression when a local is involved (a snapshot of the entry).
func pipeEntryOf(info *types.Info, defs defMap, e ast.Expr) (key ast.Expr, def ast.Expr, ok bool) {
	direct := func(e ast.Expr) (ast.Expr, bool) {
		se, ok := unparen(e).(*ast.SelectorExpr)
		if !ok || se.Sel.Name != "Pipe" {
			return nil, false
		}
		ix, ok := unparen(se.X).(*ast.IndexExpr)
		if !ok || !isField(info, ix.X, namedT, "pipes") {
			return nil, false
		}
		return ix.Index, true
	}
	if k, ok := direct(e); ok {
		return k, nil, true
	}
	if _, isId := unparen(e).(*ast.Ident); isId {
		if r := defs.resolve1(info, e); r != unparen(e) {
			if k, ok := direct(r); ok {
				return k, r, true
			}
		}
		return nil, nil, false
	}
	if se, isSel := unparen(e).(*ast.SelectorExpr); isSel && se.Sel.Name == "Pipe" {
		if _, isId := unparen(se.X).(*ast.Ident); isId {
			if ix, isIx := defs.resolve1(info, se.X).(*ast.IndexExpr); isIx && isField(info, ix.X, namedT, "pipes") {
				return ix.Index, ix, true
			}
		}
	}
	return nil, nil, false
}

// returnedLocals: the local variables that occur in a result of some return statement of fd.
func returnedLocals(info *types.Info, fd *ast.FuncDecl) map[types.Object]bool {
	out := map[types.Object]bool{}
	ast.Inspect(fd.Body, func(n ast.Node) bool {
		if rs, ok := n.(*ast.ReturnStmt); ok {
			for _, r := range rs.Results {
				ast.Inspect(r, func(x ast.Node) bool {
					if id, ok := x.(*ast.Ident); ok {
						if o := info.ObjectOf(id); o != nil {
							out[o] = true
						}
					}
					return true
				})
			}
		}
		return true
	})
	return out
}

// lockHeldBetween: no mutex operation and no join point (label, loop head) lies between the snapshot `from` and the
// act `to`, except unlocks inside a block that leaves the function/loop before reaching `to` (early exits).
func (c *Ctx) lockHeldBetween(info *types.Info, fd *ast.FuncDecl, from ast.Node, to ast.Node) bool {
	ok := true
	walkStack(fd.Body, func(n ast.Node, stack []ast.Node) bool {
		if n.Pos() <= from.End() || n.Pos() >= to.Pos() {
			return true
		}
		switch x := n.(type) {
		case *ast.LabeledStmt, *ast.ForStmt, *ast.RangeStmt, *ast.FuncLit, *ast.GoStmt, *ast.DeferStmt:
			if x.End() <= to.Pos() || x.Pos() > from.End() {
				ok = false
			}
		case *ast.CallExpr:
			if _, op := mutexOp(info, x); op != "" {
				// allowed only inside a terminating block that does not contain the act
				exits := false
				for i := len(stack) - 1; i >= 0; i-- {
					if blk, isB := stack[i].(*ast.BlockStmt); isB && !(blk.Pos() <= to.Pos() && to.End() <= blk.End()) && terminates(info, blk.List) {
						exits = true
					}
				}
				if !exits {
					ok = false
				}
			}
		}
		return true
	})
	return ok
}
