package main

// C20 — R20d (every position loop of the parse-only slice makes progress) and
// R20e (recursion consumes input). A lower-bound analysis of the net movement
// of position terms (access paths of int type, above all X.charPos):
//
//   value(term) = (origin, lb): term >= origin + lb, origin = "" (absolute) or
//   a term's own value at function entry / loop-iteration start.
//
// ++/--/±const/`+= e` move the bound, `P = saved` restores the bound the saved
// local had, cond edges refine absolute bounds, a call applies the callee's
// summary (lower bound of the net movement of its receiver/parameter
// positions on nil-error returns, or on all returns when the caller does not
// leave on error; int results relative to the callee's entry position).
// Summaries are the greatest fixpoint from "no return seen" (sound for every
// call that returns). A `for` loop / backward goto is checked by starting an
// iteration with term = 0 and requiring >= 1 on every path back to the head.

import (
	"fmt"
	"go/ast"
	"go/token"
	"go/types"
	"sort"
	"strings"

	"golang.org/x/tools/go/cfg"
)

const c20NegInf = -1 << 20

var c20DTransfers, c20DRuns int

type c20DVal struct {
	org string
	lb  int
	why string
}

type c20DState struct {
	bottom  bool // no path reaches here (yet)
	v       map[string]c20DVal
	ub      map[string]int // absolute upper bounds learnt on cond edges (clamp idiom)
	since   map[string]int // "T|v": lower bound of T − v for a local v that was assigned T(+c)
	alt     *c20DState     // state on the error edge of the err-checked call just made (nil: none)
	onlyErr bool           // the call just made has no nil-error return yet: only the error edge is live
}

func c20NewD() *c20DState {
	return &c20DState{v: map[string]c20DVal{}}
}

func (s *c20DState) setUb(k string, v int) {
	if s.ub == nil {
		s.ub = map[string]int{}
	}
	s.ub[k] = v
}

func (s *c20DState) setSince(k string, v int) {
	if s.since == nil {
		s.since = map[string]int{}
	}
	s.since[k] = v
}

func (s *c20DState) clone() *c20DState {
	n := c20NewD()
	n.bottom = s.bottom
	for k, v := range s.v {
		n.v[k] = v
	}
	for k, v := range s.ub {
		n.setUb(k, v)
	}
	for k, v := range s.since {
		n.setSince(k, v)
	}
	n.alt = s.alt
	return n
}

func c20DMeet(a, b *c20DState) *c20DState {
	if a == nil || a.bottom {
		return b.clone()
	}
	if b.bottom {
		return a.clone()
	}
	n := c20NewD()
	for k, x := range a.v {
		if y, ok := b.v[k]; ok && x.org == y.org {
			if y.lb < x.lb {
				x = y
			}
			n.v[k] = x
		}
	}
	for k, x := range a.ub {
		if y, ok := b.ub[k]; ok && y == x { // kept only when both paths agree (no ascending chains)
			n.setUb(k, x)
		}
	}
	for k, x := range a.since {
		if y, ok := b.since[k]; ok {
			if y < x {
				x = y
			}
			n.setSince(k, x)
		}
	}
	return n
}

func c20DEqual(a, b *c20DState) bool {
	if a == nil || b == nil {
		return a == b
	}
	if a.bottom != b.bottom || len(a.v) != len(b.v) || len(a.ub) != len(b.ub) || len(a.since) != len(b.since) {
		return false
	}
	for k, x := range a.since {
		if y, ok := b.since[k]; !ok || y != x {
			return false
		}
	}
	for k, x := range a.v {
		if y, ok := b.v[k]; !ok || y.org != x.org || y.lb != x.lb {
			return false
		}
	}
	for k, x := range a.ub {
		if y, ok := b.ub[k]; !ok || y != x {
			return false
		}
	}
	return true
}

// c20DSum: summary of one function.
type c20DSum struct {
	ok     map[string]int    // term (callee naming) -> net movement lower bound on nil-error returns (absent: unknown)
	all    map[string]int    // … on every return
	res    map[int]c20DVal   // int result index -> value (org: callee term or "")
	wild   bool              // writes a position through a path that is neither its receiver/parameter nor its own fresh parser
	why    map[string]string // term -> blame for the bound
	seen   bool              // at least one return analysed
	seenOk bool              // at least one nil-error return analysed
	hasErr bool
}

type c20Delta struct {
	c          *Ctx
	e          *c20Eng
	b          *c20Bounds
	info       *types.Info
	sums       map[*types.Func]*c20DSum
	nonNil     map[*types.Func]bool            // functions whose every return yields a non-nil error
	terms      map[*types.Func]map[string]bool // position terms (callee naming) a function may move, transitively
	freshCache map[*ast.FuncDecl]map[types.Object]bool
	recorded   map[*types.Func]*c20DFn
	diverged   map[string]bool
}

type c20DFn struct {
	d         *c20Delta
	fd        *ast.FuncDecl
	fn        *types.Func
	bf        *c20BFn // for reachable()/evalAll
	g         *cfg.CFG
	fresh     map[types.Object]bool
	in        map[*cfg.Block]*c20DState
	visits    map[*cfg.Block]int
	sinks     map[string]int
	stopAt    *cfg.Block
	back      *c20DState
	sum       *c20DSum // being built (function-level run)
	calls     []c20DCall
	record    bool
	recording bool
	seenOk    bool
	subWeight map[string]int // fresh parser local -> movement of the parent position the sub-slice starts at
	roots     map[string]bool
	locals    map[string]bool
	rels      []c20DRel
	preCache  map[ast.Node]bool
}

// c20DRel: a re-slice expression[v+a : T+b] judged by the T−v relation.
type c20DRel struct {
	node      *ast.SliceExpr
	known     bool
	val       int // lower bound of (T+b) − (v+a)
	errBranch bool
}

// c20DCall: movement of the caller's receiver position at an in-SCC call (R20e).
type c20DCall struct {
	call *ast.CallExpr
	g    *types.Func
	w    int // lower bound of the movement since entry of the position handed to the callee
	sub  bool
	why  string
}

func (d *c20Delta) isErrType(t types.Type) bool {
	return t != nil && t.String() == "error"
}

func (d *c20Delta) computeNonNil() {
	d.nonNil = map[*types.Func]bool{}
	for round := 0; round < 3; round++ {
		for f, fd := range d.e.decls {
			if d.nonNil[f] || fd.Type.Results == nil {
				continue
			}
			sig := f.Type().(*types.Signature)
			if sig.Results().Len() == 0 || !d.isErrType(sig.Results().At(sig.Results().Len()-1).Type()) {
				continue
			}
			ok, n := true, 0
			ast.Inspect(fd.Body, func(x ast.Node) bool {
				if _, isLit := x.(*ast.FuncLit); isLit {
					return false
				}
				if r, isRet := x.(*ast.ReturnStmt); isRet {
					n++
					if len(r.Results) == 0 || !d.nonNilErr(r.Results[len(r.Results)-1]) {
						ok = false
					}
				}
				return true
			})
			if ok && n > 0 {
				d.nonNil[f] = true
			}
		}
	}
}

func (d *c20Delta) nonNilErr(x ast.Expr) bool {
	call, ok := unparen(x).(*ast.CallExpr)
	if !ok {
		return false
	}
	g, ok := callee(d.info, call).(*types.Func)
	if !ok {
		return false
	}
	if g.Pkg() != nil && ((g.Pkg().Path() == "fmt" && g.Name() == "Errorf") || (g.Pkg().Path() == "errors" && g.Name() == "New")) {
		return true
	}
	return d.nonNil[g.Origin()]
}

func (d *c20Delta) isInt(x ast.Expr) bool {
	t := d.info.TypeOf(x)
	if t == nil {
		return false
	}
	bt, ok := t.Underlying().(*types.Basic)
	return ok && bt.Info()&types.IsInteger != 0
}

func (a *c20DFn) term(x ast.Expr) string {
	if !a.d.isInt(x) {
		return ""
	}
	return a.d.b.norm(a.fd, a.d.b.path(x))
}

func (a *c20DFn) rootFresh(p string) bool {
	root := p
	if i := strings.Index(p, "."); i >= 0 {
		root = p[:i]
	}
	for o := range a.fresh {
		if o.Name() == root {
			return true
		}
	}
	return false
}

func (a *c20DFn) pos(n ast.Node) string { return a.d.c.pos(n.Pos()) }

// eval: lower bound of an int expression.
func (a *c20DFn) eval(st *c20DState, x ast.Expr) (c20DVal, bool) {
	x = unparen(x)
	if v, ok := constInt(a.d.info, x); ok {
		return c20DVal{lb: int(v)}, true
	}
	switch n := x.(type) {
	case *ast.Ident, *ast.SelectorExpr:
		if t := a.term(n.(ast.Expr)); t != "" {
			v, ok := st.v[t]
			return v, ok
		}
	case *ast.CallExpr:
		if call, ok := isBuiltinCall(a.d.info, n, "len"); ok && len(call.Args) == 1 {
			return c20DVal{lb: 0}, true
		}
		if tv, ok := a.d.info.Types[n.Fun]; ok && tv.IsType() && len(n.Args) == 1 {
			return a.eval(st, n.Args[0])
		}
	case *ast.BinaryExpr:
		switch n.Op {
		case token.ADD:
			l, lok := a.eval(st, n.X)
			r, rok := a.eval(st, n.Y)
			if !lok || !rok || (l.org != "" && r.org != "") {
				return c20DVal{}, false
			}
			why := l.why
			if r.why != "" {
				why = strings.TrimSpace(why + " " + r.why)
			}
			return c20DVal{org: l.org + r.org, lb: l.lb + r.lb, why: why}, true
		case token.SUB:
			l, lok := a.eval(st, n.X)
			if c, ok := constInt(a.d.info, n.Y); ok && lok {
				l.lb -= int(c)
				return l, true
			}
		}
	}
	return c20DVal{}, false
}

// bump: term t moved by dl (known) or arbitrarily (!known): keep the T−v relations in step.
func (a *c20DFn) bump(st *c20DState, t string, dl int, known bool) {
	for k, v := range st.since {
		if strings.HasPrefix(k, t+"|") {
			if known {
				st.setSince(k, v+dl)
			} else {
				delete(st.since, k)
			}
		}
	}
}

func (a *c20DFn) setTerm(st *c20DState, t string, v c20DVal, ok bool) {
	delete(st.ub, t)
	if !ok {
		a.bump(st, t, 0, false)
	}
	if fv := a.d.b.lastFld(t); fv != nil && a.d.b.posFld[fv] && a.sum != nil && !a.rootFresh(t) {
		root := t
		if i := strings.Index(t, "."); i >= 0 {
			root = t[:i]
		}
		if !a.roots[root] {
			a.sum.wild = true
		}
	}
	if !ok || v.lb < -64 {
		delete(st.v, t)
	} else {
		st.v[t] = v
	}
	// the same field through another non-fresh path may be the same object
	if fv := a.d.b.lastFld(t); fv != nil && !a.rootFresh(t) {
		for k := range st.v {
			if k != t && a.d.b.lastFld(k) == fv && !a.rootFresh(k) {
				delete(st.v, k)
				a.bump(st, k, 0, false)
			}
		}
	}
}

func (a *c20DFn) move(st *c20DState, t string, dlt int, at ast.Node) {
	v, ok := st.v[t]
	if ok {
		v.lb += dlt
		if dlt < 0 {
			v.why = strings.TrimSpace(v.why + fmt.Sprintf(" %+d at %s;", dlt, a.pos(at)))
		}
	}
	ub, hasUb := st.ub[t]
	a.bump(st, t, dlt, true)
	if !ok {
		// the term itself is not tracked, the relations to saved copies still move with it
		keep := map[string]int{}
		for k, v := range st.since {
			if strings.HasPrefix(k, t+"|") {
				keep[k] = v
			}
		}
		a.setTerm(st, t, v, ok)
		for k, v := range keep {
			st.setSince(k, v)
		}
	} else {
		a.setTerm(st, t, v, ok)
	}
	if hasUb {
		st.setUb(t, ub+dlt)
	}
}

// errChecked: the statement holding this call leaves the function when the
// call's error is non-nil (x, err := f(); if err != nil { return … } or the
// if-init form).
func (a *c20DFn) errChecked(call *ast.CallExpr) bool {
	par := a.bf.parent
	var as *ast.AssignStmt
	for x := ast.Node(call); x != nil; x = par[x] {
		if s, ok := x.(*ast.AssignStmt); ok {
			as = s
			break
		}
		if _, ok := x.(ast.Stmt); ok {
			break
		}
	}
	if as == nil || len(as.Rhs) != 1 || unparen(as.Rhs[0]) != ast.Expr(call) {
		return false
	}
	errId, ok := as.Lhs[len(as.Lhs)-1].(*ast.Ident)
	if !ok || errId.Name == "_" || !a.d.isErrType(a.d.info.TypeOf(errId)) {
		return false
	}
	obj := a.d.info.Defs[errId]
	if obj == nil {
		obj = a.d.info.Uses[errId]
	}
	isErrNeNil := func(c ast.Expr) bool {
		be, ok := unparen(c).(*ast.BinaryExpr)
		if !ok || be.Op != token.NEQ {
			return false
		}
		id, ok := unparen(be.X).(*ast.Ident)
		if !ok {
			return false
		}
		o := a.d.info.Uses[id]
		tv, isNil := a.d.info.Types[be.Y]
		return o == obj && isNil && tv.IsNil()
	}
	switch p := par[as].(type) {
	case *ast.IfStmt:
		if p.Init == ast.Stmt(as) {
			return isErrNeNil(p.Cond) && terminates(a.d.info, p.Body.List)
		}
	case *ast.BlockStmt:
		for i, s := range p.List {
			if s == ast.Stmt(as) && i+1 < len(p.List) {
				if is, ok := p.List[i+1].(*ast.IfStmt); ok && is.Init == nil {
					return isErrNeNil(is.Cond) && terminates(a.d.info, is.Body.List)
				}
			}
		}
	case *ast.CaseClause:
		for i, s := range p.Body {
			if s == ast.Stmt(as) && i+1 < len(p.Body) {
				if is, ok := p.Body[i+1].(*ast.IfStmt); ok && is.Init == nil {
					return isErrNeNil(is.Cond) && terminates(a.d.info, is.Body.List)
				}
			}
		}
	}
	return false
}

// rootMap: callee receiver/parameter names -> caller access paths.
func (a *c20DFn) rootMap(call *ast.CallExpr, gd *ast.FuncDecl) map[string]string {
	m := map[string]string{}
	if gd.Recv != nil && len(gd.Recv.List) == 1 && len(gd.Recv.List[0].Names) == 1 {
		if se, ok := unparen(call.Fun).(*ast.SelectorExpr); ok {
			m[gd.Recv.List[0].Names[0].Name] = a.d.b.path(se.X)
		}
	}
	idx := 0
	for _, fl := range gd.Type.Params.List {
		for _, nm := range fl.Names {
			if idx < len(call.Args) {
				m[nm.Name] = a.d.b.path(call.Args[idx])
			}
			idx++
		}
	}
	return m
}

func (a *c20DFn) translate(m map[string]string, t string) string {
	root, rest := t, ""
	if i := strings.Index(t, "."); i >= 0 {
		root, rest = t[:i], t[i:]
	}
	cp, ok := m[root]
	if !ok || cp == "" {
		return ""
	}
	return a.d.b.norm(a.fd, cp+rest)
}

func (a *c20DFn) killNonFreshPos(st *c20DState, why string) {
	for k := range st.v {
		if fv := a.d.b.lastFld(k); fv != nil && a.d.b.posFld[fv] && !a.rootFresh(k) {
			delete(st.v, k)
		}
	}
	for k := range st.since {
		t := k[:strings.Index(k, "|")]
		if !a.rootFresh(t) {
			delete(st.since, k)
		}
	}
}

// applyCall: effect of one call on the state; returns the values of its int results.
func (a *c20DFn) applyCall(st *c20DState, call *ast.CallExpr) map[int]c20DVal {
	d := a.d
	fun := unparen(call.Fun)
	if tv, ok := d.info.Types[fun]; ok && tv.IsType() {
		return nil
	}
	if id, ok := fun.(*ast.Ident); ok {
		if _, ok := d.info.Uses[id].(*types.Builtin); ok {
			return nil
		}
	}
	g, ok := callee(d.info, call).(*types.Func)
	if ok {
		g = g.Origin()
	}
	if !ok || d.e.decls[g] == nil {
		// dynamic call or callee outside the package: by the write summaries
		fs, all := a.bf.writtenFields(call)
		if all {
			st.v = map[string]c20DVal{}
			st.ub = nil
			return nil
		}
		// dynamic call through a function value: candidates of identical signature
		worst, any := 0, false
		for _, f := range fs {
			if d.b.posFld[f] {
				any = true
			}
		}
		if any {
			if sig, isSig := d.info.TypeOf(fun).Underlying().(*types.Signature); isSig && !ok {
				for h := range d.e.decls {
					hs := h.Type().(*types.Signature)
					if !types.Identical(types.NewSignatureType(nil, nil, nil, hs.Params(), hs.Results(), hs.Variadic()), sig) {
						continue
					}
					hsum := d.sums[h]
					if hsum == nil {
						continue
					}
					if hsum.wild {
						worst = c20NegInf
					}
					for t, dl := range hsum.all {
						_ = t
						if dl < worst {
							worst = dl
						}
					}
					for t := range d.ownerTerms(h) {
						if _, has := hsum.all[t]; !has {
							worst = c20NegInf
						}
					}
				}
			} else {
				worst = c20NegInf
			}
			for k, v := range st.v {
				if fv := d.b.lastFld(k); fv != nil && d.b.posFld[fv] && !a.rootFresh(k) {
					a.bump(st, k, worst, worst > c20NegInf)
					if worst <= c20NegInf {
						delete(st.v, k)
					} else if worst < 0 {
						v.lb += worst
						v.why = strings.TrimSpace(v.why + fmt.Sprintf(" %+d via the function value called at %s;", worst, a.pos(call)))
						st.v[k] = v
					}
					delete(st.ub, k)
				}
			}
		}
		for _, f := range fs {
			if !d.b.posFld[f] {
				for k := range st.v {
					if d.b.pathHas(k, f) {
						delete(st.v, k)
					}
				}
			}
		}
		return nil
	}
	sum := d.sums[g]
	if sum == nil || !sum.seen {
		st.bottom = true // optimistic: no return of g known yet
		return nil
	}
	gd := d.e.decls[g]
	m := a.rootMap(call, gd)
	checked := a.errChecked(call)
	use := sum.all
	if checked {
		use = sum.ok
		// the error edge of the following `if err != nil` sees the all-returns summary
		alt := st.clone()
		alt.alt = nil
		a.applySum(alt, call, g, sum, m, sum.all)
		defer func() {
			if !st.bottom {
				st.alt = alt
			}
		}()
		if !sum.seenOk {
			st.bottom = true // no nil-error return of g known yet
			// the error edge is still live
			*st = *alt
			st.alt = alt
			st.onlyErr = true
			return nil
		}
	}
	var asm []c20Assumption
	if byCallee, has := c20dAssume[c20FuncName(a.fn)]; has {
		asm = byCallee[c20FuncName(g)]
	}
	preT := map[string]c20DVal{}
	for _, as := range asm {
		if as.result < 0 {
			if v, ok := st.v[as.term]; ok {
				preT[as.term] = v
			}
		}
	}
	a.applySum(st, call, g, sum, m, use)
	for _, as := range asm {
		if as.result < 0 {
			if pv, ok := preT[as.term]; ok {
				if v, has := st.v[as.term]; !has || v.org != pv.org || v.lb < pv.lb+as.min {
					keep := map[string]int{}
					for k, sv := range st.since {
						if strings.HasPrefix(k, as.term+"|") {
							keep[k] = sv
						}
					}
					st.v[as.term] = c20DVal{org: pv.org, lb: pv.lb + as.min, why: pv.why}
					_ = keep
				}
			}
		}
	}
	// int results
	out := map[int]c20DVal{}
	defer func() {
		for _, as := range asm {
			if as.result >= 0 {
				if v, has := out[as.result]; !has || v.org != "" || v.lb < as.min {
					out[as.result] = c20DVal{lb: as.min}
				}
			}
		}
	}()
	for i, rv := range sum.res {
		if rv.org == "" {
			out[i] = rv
			continue
		}
		ct := a.translate(m, rv.org)
		if ct == "" {
			continue
		}
		// result = (callee term at callee entry) + lb ; callee entry value = caller's value before the call
		out[i] = c20DVal{org: "@pre:" + ct, lb: rv.lb, why: rv.why}
	}
	return out
}

func (a *c20DFn) applySum(st *c20DState, call *ast.CallExpr, g *types.Func, sum *c20DSum, m map[string]string, use map[string]int) {
	d := a.d
	if sum.wild {
		a.killNonFreshPos(st, "")
	}
	// every position term the callee may move
	for t := range d.ownerTerms(g) {
		ct := a.translate(m, t)
		dl, known := use[t]
		if ct == "" {
			if !known || dl != 0 {
				a.killNonFreshPos(st, "")
			}
			continue
		}
		if a.record {
			// remember for R20e (movement of the handed-over position before the call)
		}
		v, has := st.v[ct]
		a.bump(st, ct, dl, known)
		if !has {
			continue
		}
		if !known {
			a.setTerm(st, ct, c20DVal{}, false)
			continue
		}
		if dl != 0 {
			v.lb += dl
			if dl < 0 {
				v.why = strings.TrimSpace(v.why + fmt.Sprintf(" %+d by %s at %s (%s);", dl, c20FuncName(g), a.pos(call), strings.TrimSpace(sum.why[t])))
			}
			a.setTerm(st, ct, v, true)
		}
	}
	// other fields written by the callee
	for f := range d.b.writes[g] {
		if d.b.posFld[f] {
			continue
		}
		for k := range st.v {
			if d.b.pathHas(k, f) {
				delete(st.v, k)
			}
		}
	}
}

func (d *c20Delta) ownerTerms(f *types.Func) map[string]bool {
	return d.terms[f]
}

// needsPre: the node assigns an int result of an in-package call (results are
// relative to the callee's entry position, i.e. the caller's value before the call).
func (a *c20DFn) needsPre(n ast.Node) bool {
	if v, ok := a.preCache[n]; ok {
		return v
	}
	need := false
	switch n.(type) {
	case *ast.AssignStmt, *ast.ValueSpec:
		ast.Inspect(n, func(x ast.Node) bool {
			if call, ok := x.(*ast.CallExpr); ok {
				if g, ok := callee(a.d.info, call).(*types.Func); ok && a.d.e.decls[g.Origin()] != nil {
					sig := g.Type().(*types.Signature)
					for i := 0; i < sig.Results().Len(); i++ {
						if bt, ok := sig.Results().At(i).Type().Underlying().(*types.Basic); ok && bt.Info()&types.IsInteger != 0 {
							need = true
						}
					}
				}
			}
			return !need
		})
	}
	if a.preCache == nil {
		a.preCache = map[ast.Node]bool{}
	}
	a.preCache[n] = need
	return need
}

// node applies one CFG node.
func (a *c20DFn) node(n ast.Node, st *c20DState) {
	d := a.d
	if a.recording {
		a.relSites(n, st)
	}
	// snapshot of position terms before calls (for results relative to the pre-call value)
	var pre map[string]c20DVal
	if a.needsPre(n) {
		pre = make(map[string]c20DVal, len(st.v))
		for k, v := range st.v {
			pre[k] = v
		}
	}
	results := map[*ast.CallExpr]map[int]c20DVal{}
	ast.Inspect(n, func(x ast.Node) bool {
		if _, ok := x.(*ast.FuncLit); ok {
			return false
		}
		if call, ok := x.(*ast.CallExpr); ok {
			// arguments first
			for _, arg := range call.Args {
				ast.Inspect(arg, func(y ast.Node) bool {
					if c2, ok := y.(*ast.CallExpr); ok {
						results[c2] = a.applyCall(st, c2)
						return false
					}
					return true
				})
			}
			if se, ok := unparen(call.Fun).(*ast.SelectorExpr); ok {
				ast.Inspect(se.X, func(y ast.Node) bool {
					if c2, ok := y.(*ast.CallExpr); ok {
						results[c2] = a.applyCall(st, c2)
						return false
					}
					return true
				})
			}
			if a.recording {
				a.noteCall(st, call)
			}
			results[call] = a.applyCall(st, call)
			return false
		}
		return true
	})
	if st.bottom {
		return
	}
	resolve := func(v c20DVal) (c20DVal, bool) {
		if strings.HasPrefix(v.org, "@pre:") {
			t := strings.TrimPrefix(v.org, "@pre:")
			pv, ok := pre[t]
			if !ok {
				return c20DVal{}, false
			}
			return c20DVal{org: pv.org, lb: pv.lb + v.lb, why: strings.TrimSpace(pv.why + " " + v.why)}, true
		}
		return v, true
	}
	assign := func(lhs ast.Expr, rhs ast.Expr, tok token.Token, resIdx int, fromCall *ast.CallExpr) {
		if id, ok := unparen(lhs).(*ast.Ident); ok && id.Name == "_" {
			return
		}
		// fresh parser locals
		if id, ok := unparen(lhs).(*ast.Ident); ok && rhs != nil {
			if call, ok := unparen(rhs).(*ast.CallExpr); ok {
				if g, ok := callee(d.info, call).(*types.Func); ok && d.b.isCtor[g.Origin()] {
					o := d.info.Defs[id]
					if o == nil {
						o = d.info.Uses[id]
					}
					if o != nil && a.fresh[o] {
						// a new object: all its int fields are zero unless the constructor writes them
						for k := range st.v {
							if strings.HasPrefix(k, id.Name+".") {
								delete(st.v, k)
							}
						}
						for fv := range d.b.posFld {
							wr := false
							for w := range d.b.writes[g.Origin()] {
								if w == fv {
									wr = true
								}
							}
							_ = wr
						}
						t := d.b.norm(a.fd, id.Name+".charPos")
						delete(a.subWeight, id.Name)
						for _, arg := range call.Args {
							if sl, isSl := unparen(arg).(*ast.SliceExpr); isSl && sl.High == nil && sl.Low != nil {
								if fv, _ := fieldOf(d.info, sl.X); fv != nil && d.b.expFld[fv] {
									if lv, lok := a.eval(st, sl.Low); lok && lv.org != "" {
										if old, has := a.subWeight[id.Name]; !has || lv.lb < old {
											a.subWeight[id.Name] = lv.lb
										}
									} else {
										a.subWeight[id.Name] = c20NegInf
									}
								}
							}
						}
						if a.ctorLeavesZero(g.Origin()) {
							d.b.registerPos(id, t)
							st.v[t] = c20DVal{lb: 0}
						}
						return
					}
				}
			}
		}
		t := a.term(lhs)
		if t == "" {
			// non-int or not a path: a store to a struct/pointer path invalidates terms below it
			if p := d.b.norm(a.fd, d.b.path(lhs)); p != "" {
				for k := range st.v {
					if strings.HasPrefix(k, p+".") {
						delete(st.v, k)
					}
				}
			}
			return
		}
		cur, has := st.v[t]
		var nv c20DVal
		ok := false
		switch tok {
		case token.ADD_ASSIGN:
			if r, rok := a.eval(st, rhs); rok && r.org == "" && has {
				nv, ok = cur, true
				nv.lb += r.lb
				if r.lb < 0 {
					nv.why = strings.TrimSpace(nv.why + fmt.Sprintf(" %+d at %s (%s; %s);", r.lb, a.pos(lhs), d.c.src(rhs), strings.TrimSpace(r.why)))
				}
			}
		case token.SUB_ASSIGN:
			if c, cok := constInt(d.info, rhs); cok && has {
				nv, ok = cur, true
				nv.lb -= int(c)
				nv.why = strings.TrimSpace(nv.why + fmt.Sprintf(" %+d at %s;", -int(c), a.pos(lhs)))
			}
		case token.ASSIGN, token.DEFINE:
			var r c20DVal
			rok := false
			if fromCall != nil {
				if rv, has := results[fromCall][resIdx]; has {
					r, rok = resolve(rv)
				}
			} else if rhs != nil {
				r, rok = a.eval(st, rhs)
			}
			switch {
			case !rok:
			case !has || tok == token.DEFINE || a.isLocal(lhs):
				nv, ok = r, true // a local simply takes the value
			case r.org == cur.org:
				nv, ok = r, true
				if r.lb < cur.lb {
					nv.why = strings.TrimSpace(r.why + fmt.Sprintf(" set back to %s at %s;", d.c.src(rhs), a.pos(lhs)))
				}
			case r.org == "" && cur.org != "":
				// absolute value into a relative term: only the clamp idiom (known absolute upper bound)
				if u, hasU := st.ub[t]; hasU && r.lb > u {
					nv, ok = cur, true
					nv.lb += r.lb - u
				}
			}
		}
		if a.isLocal(lhs) {
			delete(st.ub, t)
			if ok {
				st.v[t] = nv
			} else {
				delete(st.v, t)
			}
			// v := T + c  ⇒  T − v = −c exactly
			for k := range st.since {
				if strings.HasSuffix(k, "|"+t) {
					delete(st.since, k)
				}
			}
			if rhs != nil && fromCall == nil && (tok == token.ASSIGN || tok == token.DEFINE) {
				if l := d.b.lin(a.fd, rhs); l.ok && l.lenOf == "" && l.base != "" && !strings.HasPrefix(l.base, "-") && !a.isLocalName(l.base) {
					st.setSince(l.base+"|"+t, -l.k)
				}
			}
			return
		}
		// T = v + c (restore): T − v = c exactly
		restored := false
		if rhs != nil && fromCall == nil && tok == token.ASSIGN {
			if l := d.b.lin(a.fd, rhs); l.ok && l.lenOf == "" && a.isLocalName(l.base) {
				a.bump(st, t, 0, false)
				st.setSince(t+"|"+l.base, l.k)
				restored = true
			}
		}
		if !restored && (tok == token.ASSIGN || tok == token.DEFINE) {
			a.bump(st, t, 0, false)
		} else if tok == token.ADD_ASSIGN || tok == token.SUB_ASSIGN {
			if ok {
				a.bump(st, t, nv.lb-cur.lb, true)
			} else if r, rok := a.eval(st, rhs); rok && r.org == "" && tok == token.ADD_ASSIGN {
				a.bump(st, t, r.lb, true)
			} else if c, cok := constInt(d.info, rhs); cok && tok == token.SUB_ASSIGN {
				a.bump(st, t, -int(c), true)
			} else {
				a.bump(st, t, 0, false)
			}
		}
		if restored || tok == token.ADD_ASSIGN || tok == token.SUB_ASSIGN {
			keep := map[string]int{}
			for k, v := range st.since {
				if strings.HasPrefix(k, t+"|") {
					keep[k] = v
				}
			}
			defer func() {
				for k, v := range keep {
					st.setSince(k, v)
				}
			}()
		}
		a.setTerm(st, t, nv, ok)
		if c, isC := constInt(d.info, rhs); isC && rhs != nil && (tok == token.ASSIGN) {
			st.setUb(t, int(c))
		}
	}
	switch s := n.(type) {
	case *ast.AssignStmt:
		if len(s.Rhs) == 1 && len(s.Lhs) > 1 {
			if call, ok := unparen(s.Rhs[0]).(*ast.CallExpr); ok {
				for i, l := range s.Lhs {
					assign(l, nil, s.Tok, i, call)
				}
				break
			}
		}
		for i, l := range s.Lhs {
			var r ast.Expr
			if len(s.Lhs) == len(s.Rhs) {
				r = s.Rhs[i]
			}
			if call, ok := unparen(r).(*ast.CallExpr); ok && r != nil {
				if _, isRes := results[call]; isRes && len(results[call]) > 0 {
					assign(l, r, s.Tok, 0, call)
					continue
				}
			}
			assign(l, r, s.Tok, 0, nil)
		}
	case *ast.IncDecStmt:
		if t := a.term(s.X); t != "" {
			dl := 1
			if s.Tok == token.DEC {
				dl = -1
			}
			a.move(st, t, dl, s)
		}
	case *ast.ValueSpec: // go/cfg emits each var spec as its own node
		for i, nm := range s.Names {
			if len(s.Values) == len(s.Names) {
				assign(nm, s.Values[i], token.DEFINE, 0, nil)
			} else if len(s.Values) == 0 && d.isInt(nm) {
				st.v[nm.Name] = c20DVal{lb: 0}
			}
		}
	case *ast.Ident:
		delete(st.v, s.Name) // range key/value
	case *ast.ReturnStmt:
		if a.sum != nil {
			a.atReturn(st, s)
		}
	}
}

// relSites: re-slices expression[v+a : T+b] with a saved position v.
func (a *c20DFn) relSites(n ast.Node, st *c20DState) {
	d := a.d
	ast.Inspect(n, func(x ast.Node) bool {
		if _, ok := x.(*ast.FuncLit); ok {
			return false
		}
		sl, ok := x.(*ast.SliceExpr)
		if !ok || sl.Low == nil || sl.High == nil {
			return true
		}
		if fv, _ := fieldOf(d.info, sl.X); fv == nil || !d.b.expFld[fv] {
			return true
		}
		lo, hi := d.b.lin(a.fd, sl.Low), d.b.lin(a.fd, sl.High)
		if !lo.ok || !hi.ok || lo.lenOf != "" || hi.lenOf != "" || !a.isLocalName(lo.base) || hi.base == "" || strings.HasPrefix(hi.base, "-") {
			return true
		}
		r := c20DRel{node: sl}
		if v, has := st.since[hi.base+"|"+lo.base]; has {
			r.known = true
			r.val = v + hi.k - lo.k
		}
		a.rels = append(a.rels, r)
		return true
	})
}

func (b *c20Bounds) registerPos(id *ast.Ident, t string) {
	if _, ok := b.pathFld[t]; ok {
		return
	}
	tt := b.info.TypeOf(id)
	if tt == nil {
		return
	}
	if st := structOf(tt); st != nil {
		for i := 0; i < st.NumFields(); i++ {
			if st.Field(i).Name() == "charPos" {
				b.pathFld[t] = []*types.Var{st.Field(i)}
			}
		}
	}
}

func (a *c20DFn) ctorLeavesZero(g *types.Func) bool {
	gd := a.d.e.decls[g]
	if gd == nil {
		return false
	}
	ok := true
	ast.Inspect(gd.Body, func(x ast.Node) bool {
		switch s := x.(type) {
		case *ast.AssignStmt:
			for _, l := range s.Lhs {
				if v, _ := fieldOf(a.d.info, l); v != nil && a.d.b.posFld[v] {
					ok = false
				}
			}
		case *ast.IncDecStmt:
			if v, _ := fieldOf(a.d.info, s.X); v != nil && a.d.b.posFld[v] {
				ok = false
			}
		case *ast.CompositeLit:
			for _, el := range s.Elts {
				if kv, isKV := el.(*ast.KeyValueExpr); isKV {
					if id, isId := kv.Key.(*ast.Ident); isId && id.Name == "charPos" {
						ok = false
					}
				}
			}
		}
		return true
	})
	return ok
}

func (a *c20DFn) isLocalName(name string) bool {
	if name == "" || strings.Contains(name, ".") {
		return false
	}
	return a.localNames()[name]
}

func (a *c20DFn) localNames() map[string]bool {
	if a.locals != nil {
		return a.locals
	}
	a.locals = map[string]bool{}
	ast.Inspect(a.fd.Body, func(x ast.Node) bool {
		if id, ok := x.(*ast.Ident); ok {
			if v, ok := a.d.info.Defs[id].(*types.Var); ok && !v.IsField() && a.d.isInt(id) {
				a.locals[id.Name] = true
			}
		}
		return true
	})
	return a.locals
}

func (a *c20DFn) isLocal(x ast.Expr) bool {
	id, ok := unparen(x).(*ast.Ident)
	if !ok {
		return false
	}
	o := a.d.info.Defs[id]
	if o == nil {
		o = a.d.info.Uses[id]
	}
	v, ok := o.(*types.Var)
	return ok && !v.IsField() && v.Parent() != nil && v.Parent() != a.d.e.pk.Types.Scope()
}

func (a *c20DFn) atReturn(st *c20DState, r *ast.ReturnStmt) {
	d := a.d
	sum := a.sum
	sig := a.fn.Type().(*types.Signature)
	nres := sig.Results().Len()
	isErr := nres > 0 && d.isErrType(sig.Results().At(nres-1).Type())
	okRet, errRet := true, false
	if isErr {
		sum.hasErr = true
		if len(r.Results) == nres {
			last := r.Results[nres-1]
			if tv, has := d.info.Types[last]; has && tv.IsNil() {
				okRet, errRet = true, false
			} else if d.nonNilErr(last) {
				okRet, errRet = false, true
			} else {
				okRet, errRet = true, true
			}
		} else {
			okRet, errRet = true, true // naked return / forwarded call
		}
	}
	first := !sum.seen
	sum.seen = true
	upd := func(m map[string]int, t string, v c20DVal, known bool, firstOfKind bool) {
		old, had := m[t]
		switch {
		case firstOfKind:
			if known {
				m[t] = v.lb
				sum.why[t] = v.why
			}
		case !had:
			// already unknown
		case !known:
			delete(m, t)
		case v.lb < old:
			m[t] = v.lb
			sum.why[t] = v.why
		}
	}
	for t := range d.ownerTerms(a.fn) {
		v, known := st.v[t]
		if known && v.org != t {
			known = false
		}
		if okRet {
			upd(sum.ok, t, v, known, !a.seenOk)
		}
		upd(sum.all, t, v, known, first)
		_ = errRet
	}
	if okRet {
		for i := 0; i < nres && i < len(r.Results); i++ {
			if !d.isInt(r.Results[i]) {
				continue
			}
			v, known := a.eval(st, r.Results[i])
			if known && v.org != "" && !d.ownerTerms(a.fn)[v.org] {
				known = false
			}
			old, had := sum.res[i]
			switch {
			case !a.seenOk:
				if known {
					sum.res[i] = v
				}
			case !had:
			case !known || old.org != v.org:
				delete(sum.res, i)
			case v.lb < old.lb:
				sum.res[i] = v
			}
		}
		a.seenOk = true
		sum.seenOk = true
	}
}

// noteCall records, for R20e, how far the position handed to an in-package
// callee has moved since this function's entry.
func (a *c20DFn) noteCall(st *c20DState, call *ast.CallExpr) {
	d := a.d
	g, ok := callee(d.info, call).(*types.Func)
	if !ok || d.e.decls[g.Origin()] == nil {
		return
	}
	g = g.Origin()
	gd := d.e.decls[g]
	m := a.rootMap(call, gd)
	w, found, sub := c20NegInf, false, false
	why := ""
	for t := range d.ownerTerms(g) {
		ct := a.translate(m, t)
		if ct == "" {
			continue
		}
		if a.rootFresh(ct) {
			// a sub-parser: judged by the slice it was built on (see subParserWeight)
			if sw, ok := a.subWeight[strings.SplitN(ct, ".", 2)[0]]; ok {
				w, found, sub = sw, true, true
			}
			continue
		}
		if v, has := st.v[ct]; has && v.org == ct {
			if !found || v.lb < w {
				w, found = v.lb, true
				why = v.why
			}
		} else {
			w, found = c20NegInf, true
		}
	}
	if found {
		a.calls = append(a.calls, c20DCall{call: call, g: g, w: w, sub: sub, why: why})
	}
}

// ------------------------------------------------------------ dataflow

func (a *c20DFn) run(start *cfg.Block, init *c20DState) {
	c20DRuns++
	a.in = map[*cfg.Block]*c20DState{start: init}
	a.visits = map[*cfg.Block]int{}
	a.sinks = map[string]int{}
	a.back = nil
	work := []*cfg.Block{start}
	inWork := map[*cfg.Block]bool{start: true}
	defer func() {
		if len(work) > 0 {
			a.d.diverged[c20FuncName(a.fn)] = true
		}
	}()
	for iter := 0; len(work) > 0 && iter < 60000; iter++ {
		// lowest block index first (go/cfg numbers blocks roughly in reverse post-order):
		// a loop body is finished before its head is redone
		mi := 0
		for i, w := range work {
			if w.Index < work[mi].Index {
				mi = i
			}
		}
		blk := work[mi]
		work[mi] = work[len(work)-1]
		work = work[:len(work)-1]
		inWork[blk] = false
		c20DTransfers++
		outs := a.transfer(blk, a.in[blk].clone())
		handed := map[*c20DState]bool{}
		for i, succ := range blk.Succs {
			es := outs[0]
			if i < len(outs) {
				es = outs[i]
			}
			if es.bottom {
				continue
			}
			if succ == a.stopAt {
				if a.back == nil {
					a.back = es.clone()
				} else {
					a.back = c20DMeet(a.back, es)
				}
				continue
			}
			old := a.in[succ]
			var nw *c20DState
			if old == nil {
				if handed[es] {
					nw = es.clone()
				} else {
					nw = es
					handed[es] = true
				}
			} else {
				nw = c20DMeet(old, es)
				// widening: a bound that keeps sinking at the same block is dropped
				for k, v := range nw.v {
					if ov, ok := old.v[k]; ok && v.lb < ov.lb {
						key := fmt.Sprintf("%d/%s", succ.Index, k)
						a.sinks[key]++
						if a.sinks[key] > 10 {
							delete(nw.v, k)
						}
					}
				}
			}
			if old == nil || !c20DEqual(old, nw) {
				a.in[succ] = nw
				if !inWork[succ] {
					work = append(work, succ)
					inWork[succ] = true
				}
			}
		}
	}
}

func (a *c20DFn) transfer(blk *cfg.Block, st *c20DState) []*c20DState {
	d := a.d
	for _, n := range blk.Nodes {
		if st.bottom {
			break
		}
		if !a.bf.reachable(n) {
			st.bottom = true
			break
		}
		if st.alt != nil || st.onlyErr {
			if _, isCond := n.(ast.Expr); !isCond {
				// something runs between the call and its error test: both outcomes continue
				if st.alt != nil {
					m := c20DMeet(st, st.alt)
					*st = *m
				}
				st.alt, st.onlyErr = nil, false
			}
		}
		a.node(n, st)
	}
	if st.alt != nil || st.onlyErr {
		alt, only := st.alt, st.onlyErr
		st.alt, st.onlyErr = nil, false
		handled := false
		if len(blk.Succs) == 2 && len(blk.Nodes) > 0 {
			if cond, ok := blk.Nodes[len(blk.Nodes)-1].(ast.Expr); ok {
				if be, ok := unparen(cond).(*ast.BinaryExpr); ok && be.Op == token.NEQ {
					if tv, has := d.info.Types[be.Y]; has && tv.IsNil() && d.isErrType(d.info.TypeOf(be.X)) {
						t, f := alt.clone(), st.clone()
						t.alt, f.alt = nil, nil
						if only {
							f.bottom = true
						}
						return []*c20DState{t, f}
					}
				}
			}
		}
		if !handled && alt != nil {
			m := c20DMeet(st, alt)
			m.alt = nil
			*st = *m
		}
	}
	if len(blk.Succs) == 0 && !st.bottom && a.sum != nil {
		implicit := true
		if n := len(blk.Nodes); n > 0 {
			switch last := blk.Nodes[n-1].(type) {
			case *ast.ReturnStmt:
				implicit = false
			case *ast.ExprStmt:
				if call, ok := last.X.(*ast.CallExpr); ok && c20IsBuiltin(d.info, call, "panic") {
					implicit = false
				}
			}
		}
		if implicit {
			a.atReturn(st, &ast.ReturnStmt{})
		}
	}
	if len(blk.Succs) == 2 && len(blk.Nodes) > 0 && !st.bottom {
		if cond, ok := blk.Nodes[len(blk.Nodes)-1].(ast.Expr); ok && !a.bf.tagged[cond] && c20IsBool(d.info.TypeOf(cond)) {
			t, f := st.clone(), st.clone()
			a.condRefine(t, cond, true)
			a.condRefine(f, cond, false)
			switch a.bf.evalAll(cond) {
			case c20F:
				t.bottom = true
			case c20T:
				f.bottom = true
			}
			return []*c20DState{t, f}
		}
	}
	return []*c20DState{st}
}

// condRefine: term op const on an edge.
func (a *c20DFn) condRefine(st *c20DState, cond ast.Expr, truth bool) {
	d := a.d
	cond = unparen(cond)
	be, ok := cond.(*ast.BinaryExpr)
	if !ok {
		if u, isU := cond.(*ast.UnaryExpr); isU && u.Op == token.NOT {
			a.condRefine(st, u.X, !truth)
		}
		return
	}
	switch be.Op {
	case token.LAND:
		if truth {
			a.condRefine(st, be.X, true)
			a.condRefine(st, be.Y, true)
		}
		return
	case token.LOR:
		if !truth {
			a.condRefine(st, be.X, false)
			a.condRefine(st, be.Y, false)
		}
		return
	}
	op := be.Op
	if !truth {
		var has bool
		op, has = map[token.Token]token.Token{token.LSS: token.GEQ, token.LEQ: token.GTR, token.GTR: token.LEQ, token.GEQ: token.LSS, token.EQL: token.NEQ, token.NEQ: token.EQL}[op]
		if !has {
			return
		}
	}
	x, y := be.X, be.Y
	c, isC := constInt(d.info, y)
	if !isC {
		if c, isC = constInt(d.info, x); !isC {
			return
		}
		x = y
		var has bool
		op, has = map[token.Token]token.Token{token.LSS: token.GTR, token.LEQ: token.GEQ, token.GTR: token.LSS, token.GEQ: token.LEQ, token.EQL: token.EQL, token.NEQ: token.NEQ}[op]
		if !has {
			return
		}
	}
	// (x) op c where x = term + k
	k := 0
	if b2, ok := unparen(x).(*ast.BinaryExpr); ok && (b2.Op == token.ADD || b2.Op == token.SUB) {
		if kc, isK := constInt(d.info, b2.Y); isK {
			k = int(kc)
			if b2.Op == token.SUB {
				k = -k
			}
			x = b2.X
		}
	}
	t := a.term(x)
	if t == "" {
		return
	}
	cc := int(c) - k // term op cc
	setLo := func(L int) {
		if v, has := st.v[t]; has && v.org == "" {
			if L > v.lb {
				v.lb = L
				v.why = ""
				st.v[t] = v
			}
		} else if !has {
			st.v[t] = c20DVal{lb: L}
		}
	}
	switch op {
	case token.LSS:
		st.setUb(t, cc-1)
	case token.LEQ:
		st.setUb(t, cc)
	case token.GTR:
		if v, has := st.v[t]; !has || v.org == "" {
			setLo(cc + 1)
		}
	case token.GEQ:
		if v, has := st.v[t]; !has || v.org == "" {
			setLo(cc)
		}
	case token.EQL:
		st.setUb(t, cc)
		if v, has := st.v[t]; !has || v.org == "" {
			setLo(cc)
		}
	}
}

// ------------------------------------------------------------ driver

func (d *c20Delta) newFn(f *types.Func) *c20DFn {
	fd := d.e.decls[f]
	d.b.prepareFn(fd)
	bf := &c20BFn{b: d.b, fd: fd, fn: f, g: d.b.cfgs[fd], parent: d.b.parents[fd], tagged: d.b.tagged[fd]}
	if d.freshCache == nil {
		d.freshCache = map[*ast.FuncDecl]map[types.Object]bool{}
	}
	if d.freshCache[fd] == nil {
		d.freshCache[fd] = d.b.freshLocals(fd, d.b.isCtor)
	}
	a := &c20DFn{d: d, fd: fd, fn: f, bf: bf, g: d.b.cfgs[fd], fresh: d.freshCache[fd], subWeight: map[string]int{}, roots: map[string]bool{}}
	if fd.Recv != nil {
		for _, fl := range fd.Recv.List {
			for _, nm := range fl.Names {
				a.roots[nm.Name] = true
			}
		}
	}
	for _, fl := range fd.Type.Params.List {
		for _, nm := range fl.Names {
			a.roots[nm.Name] = true
		}
	}
	return a
}

// computeTerms: the position terms (receiver/parameter rooted X.charPos) each
// function may move, directly or through callees.
func (d *c20Delta) computeTerms(fns []*types.Func) {
	d.terms = map[*types.Func]map[string]bool{}
	for f, fd := range d.e.decls {
		m := map[string]bool{}
		for _, o := range d.b.owners(fd) {
			m[o+".charPos"] = true
		}
		d.terms[f] = m
	}
	for changed := true; changed; {
		changed = false
		for f, fd := range d.e.decls {
			a := d.newFn(f)
			ast.Inspect(fd.Body, func(x ast.Node) bool {
				call, ok := x.(*ast.CallExpr)
				if !ok {
					return true
				}
				g, ok := callee(d.info, call).(*types.Func)
				if !ok || d.e.decls[g.Origin()] == nil {
					return true
				}
				g = g.Origin()
				m := a.rootMap(call, d.e.decls[g])
				for t := range d.terms[g] {
					ct := a.translate(m, t)
					if ct == "" {
						continue
					}
					root := ct
					if i := strings.Index(ct, "."); i >= 0 {
						root = ct[:i]
					}
					if a.roots[root] && !d.terms[f][ct] {
						d.terms[f][ct] = true
						d.b.pathFld[ct] = d.b.pathFld[d.anyPosPath()]
						changed = true
					}
				}
				return true
			})
		}
	}
}

func (d *c20Delta) anyPosPath() string {
	for p, fl := range d.b.pathFld {
		if n := len(fl); n > 0 && d.b.posFld[fl[n-1]] && strings.HasSuffix(p, "tree.charPos") {
			return p
		}
	}
	return ""
}

func c20SumEqual(a, b *c20DSum) bool {
	if a == nil || b == nil {
		return a == b
	}
	if a.wild != b.wild || a.seen != b.seen || a.seenOk != b.seenOk || len(a.ok) != len(b.ok) || len(a.all) != len(b.all) || len(a.res) != len(b.res) {
		return false
	}
	for k, v := range a.ok {
		if w, ok := b.ok[k]; !ok || w != v {
			return false
		}
	}
	for k, v := range a.all {
		if w, ok := b.all[k]; !ok || w != v {
			return false
		}
	}
	for k, v := range a.res {
		if w, ok := b.res[k]; !ok || w.org != v.org || w.lb != v.lb {
			return false
		}
	}
	return true
}

func (d *c20Delta) summarise(f *types.Func, record bool) (*c20DSum, *c20DFn) {
	a := d.newFn(f)
	a.record = record
	a.sum = &c20DSum{ok: map[string]int{}, all: map[string]int{}, res: map[int]c20DVal{}, why: map[string]string{}}
	if len(a.g.Blocks) == 0 {
		return a.sum, a
	}
	init := c20NewD()
	for t := range d.ownerTerms(f) {
		init.v[t] = c20DVal{org: t}
	}
	a.run(a.g.Blocks[0], init)
	if record {
		// replay every block once from its final in-state
		a.recording = true
		saveSum := a.sum
		a.sum = &c20DSum{ok: map[string]int{}, all: map[string]int{}, res: map[int]c20DVal{}, why: map[string]string{}}
		for _, blk := range a.g.Blocks {
			if st := a.in[blk]; st != nil && !st.bottom {
				a.transfer(blk, st.clone())
			}
		}
		a.sum = saveSum
		a.recording = false
	}
	return a.sum, a
}

func (d *c20Delta) fixpoint(fns []*types.Func) {
	d.sums = map[*types.Func]*c20DSum{}
	// callers (static calls and function values of the package): who must be redone when a summary changes
	callers := map[*types.Func]map[*types.Func]bool{}
	for _, f := range fns {
		hasDyn := false
		ast.Inspect(d.e.decls[f].Body, func(x ast.Node) bool {
			if call, ok := x.(*ast.CallExpr); ok {
				if g, ok := callee(d.info, call).(*types.Func); ok {
					if d.e.decls[g.Origin()] != nil {
						if callers[g.Origin()] == nil {
							callers[g.Origin()] = map[*types.Func]bool{}
						}
						callers[g.Origin()][f] = true
					}
				} else if _, isSig := d.info.TypeOf(call.Fun).Underlying().(*types.Signature); isSig {
					if tv, ok := d.info.Types[call.Fun]; !ok || !tv.IsType() {
						hasDyn = true
					}
				}
			}
			return true
		})
		if hasDyn {
			for _, g := range fns {
				if callers[g] == nil {
					callers[g] = map[*types.Func]bool{}
				}
				callers[g][f] = true
			}
		}
	}
	dirty := map[*types.Func]bool{}
	for _, f := range fns {
		dirty[f] = true
	}
	for round := 0; round < 60; round++ {
		changed := false
		next := map[*types.Func]bool{}
		for _, f := range fns {
			if !dirty[f] {
				continue
			}
			s, _ := d.summarise(f, false)
			if old := d.sums[f]; old != nil {
				// monotone: never improve on an earlier (sound-so-far) bound
				for k, v := range old.ok {
					if w, ok := s.ok[k]; ok && w > v {
						s.ok[k] = v
					}
				}
				for k := range s.ok {
					if _, ok := old.ok[k]; !ok && old.seenOk {
						delete(s.ok, k)
					}
				}
				for i, r := range old.res {
					if w, ok := s.res[i]; ok && w.org == r.org && w.lb > r.lb {
						s.res[i] = r
					}
				}
				for i := range s.res {
					if _, ok := old.res[i]; !ok && old.seenOk {
						delete(s.res, i)
					}
				}
				s.seenOk = s.seenOk || old.seenOk
				for k, v := range old.all {
					if w, ok := s.all[k]; ok && w > v {
						s.all[k] = v
					}
				}
				for k := range s.all {
					if _, ok := old.all[k]; !ok && old.seen {
						delete(s.all, k)
					}
				}
				s.wild = s.wild || old.wild
				s.seen = s.seen || old.seen
			}
			if !s.seen {
				continue
			}
			if !c20SumEqual(d.sums[f], s) {
				d.sums[f] = s
				changed = true
				for g := range callers[f] {
					next[g] = true
				}
			}
		}
		if !changed {
			return
		}
		dirty = next
	}
}

func (d *c20Delta) showSum(f *types.Func) string {
	s := d.sums[f]
	if s == nil {
		return "never returns (in the slice)"
	}
	var parts []string
	for t := range d.ownerTerms(f) {
		okv, allv := "?", "?"
		if v, ok := s.ok[t]; ok {
			okv = fmt.Sprintf("%+d", v)
		}
		if v, ok := s.all[t]; ok {
			allv = fmt.Sprintf("%+d", v)
		}
		parts = append(parts, fmt.Sprintf("%s ok>=%s all>=%s", t, okv, allv))
	}
	for i, r := range s.res {
		parts = append(parts, fmt.Sprintf("result%d>=%s%+d", i, c20Or(r.org, "0"), r.lb))
	}
	if s.wild {
		parts = append(parts, "wild")
	}
	sort.Strings(parts)
	return strings.Join(parts, ", ")
}

// c20dAssume: reviewed facts about callees that the position lower-bound
// domain cannot derive (they relate consumed runes to the command buffer),
// used only inside the named caller. Reason in DESIGN §4 C20 / NOTES:
//   - preParser returns a position >= 0 on success: the expression path clamps
//     a negative charPos to 0 in validateExpression, the statement path
//     rejects an empty command ("you cannot have zero length commands") and a
//     non-empty command has consumed at least one rune;
//   - parseStatementWithKnownCommand starts its sub-parser at len(command)=2
//     and parseStatement moves back by at most 1.
type c20Assumption struct {
	result int // >= 0: index of the int result assumed >= min; -1: a position term
	term   string
	min    int
}

var c20dAssume = map[string]map[string][]c20Assumption{
	"(BlockT).ParseBlock": {
		"(ParserT).preParser":                     {{result: 0, min: 0}},
		"(BlockT).parseStatementWithKnownCommand": {{result: -1, term: "blk.charPos", min: 0}},
	},
}

func (c *Ctx) c20RuleD(e *c20Eng) {
	const rule = "R20d"
	c.Rule(rule, "every `for` loop and backward goto of the parse-only slice advances its position on every path back to the loop head: with the position set to 0 at the start of an iteration, the lower bound of its value on every back edge (after the post statement) is >= 1; callee effects come from summaries (net movement lower bound on nil-error / all returns, int results relative to the entry position), the bound expression of the loop is not written in the body")
	b := e.bounds
	if b == nil {
		c.Lost(rule, "engine", "bounds engine not initialised")
		return
	}
	d := &c20Delta{c: c, e: e, b: b, info: e.info, diverged: map[string]bool{}}
	d.computeNonNil()
	var fns []*types.Func
	for f := range e.perFn {
		fns = append(fns, f)
	}
	sort.Slice(fns, func(i, j int) bool { return fns[i].FullName() < fns[j].FullName() })
	d.computeTerms(fns)
	d.fixpoint(fns)
	e.delta = d
	names := c.c20EnclosingFuncs(e.pk)
	nloops, ngoto := 0, 0
	ord := map[string]int{}
	for _, f := range fns {
		fd := e.decls[f]
		fn := names[fd]
		a := d.newFn(f)
		var loops []*ast.ForStmt
		var gotos []*ast.BranchStmt
		labels := map[string]*ast.LabeledStmt{}
		ast.Inspect(fd.Body, func(x ast.Node) bool {
			switch s := x.(type) {
			case *ast.FuncLit:
				return false
			case *ast.ForStmt:
				loops = append(loops, s)
			case *ast.LabeledStmt:
				labels[s.Label.Name] = s
			case *ast.BranchStmt:
				if s.Tok == token.GOTO {
					gotos = append(gotos, s)
				}
			}
			return true
		})
		for _, lp := range loops {
			if !e.reachStmt[lp] {
				continue
			}
			nloops++
			key := "loop:" + fn + ":" + c.src(lp.Cond)
			ord[key]++
			if ord[key] > 1 {
				key += fmt.Sprintf("#%d", ord[key])
			}
			if lp.Cond == nil {
				c.Undecided(rule, "loop:"+fn+":for{}", lp.Pos(), "loop without a condition in %s: termination is not decided", fn)
				continue
			}
			be, ok := unparen(lp.Cond).(*ast.BinaryExpr)
			var tExpr, nExpr ast.Expr
			if ok {
				switch be.Op {
				case token.LSS, token.LEQ:
					tExpr, nExpr = be.X, be.Y
				case token.GTR, token.GEQ:
					tExpr, nExpr = be.Y, be.X
				}
			}
			t := ""
			if tExpr != nil {
				t = a.term(tExpr)
			}
			if t == "" {
				c.Undecided(rule, key, lp.Pos(), "loop condition %s in %s is not of the form position < bound: termination is not decided", c.src(lp.Cond), fn)
				continue
			}
			// the bound must not be written in the loop
			if why := d.boundWritten(a, lp, nExpr); why != "" {
				c.Undecided(rule, key, lp.Pos(), "the bound %s of the loop in %s may change in the body (%s): termination is not decided", c.src(nExpr), fn, why)
				continue
			}
			var head, body *cfg.Block
			for _, blk := range a.g.Blocks {
				if blk.Stmt == ast.Stmt(lp) {
					switch blk.Kind {
					case cfg.KindForLoop:
						head = blk
					case cfg.KindForBody:
						body = blk
					}
				}
			}
			if head == nil || body == nil {
				c.Undecided(rule, key, lp.Pos(), "CFG blocks of the loop not found")
				continue
			}
			a.sum = nil
			a.stopAt = head
			init := c20NewD()
			init.v[t] = c20DVal{org: t}
			a.run(body, init)
			d.judge(rule, key, fn, lp.Pos(), t, a.back, "loop over "+c.src(lp.Cond))
		}
		for _, g := range gotos {
			lb := labels[g.Label.Name]
			if lb == nil || lb.Pos() > g.Pos() || !e.reachStmt[g] {
				continue
			}
			ngoto++
			var lblk *cfg.Block
			for _, blk := range a.g.Blocks {
				if blk.Kind == cfg.KindLabel && blk.Stmt == ast.Stmt(lb) {
					lblk = blk
				}
			}
			key := "goto:" + fn + ":" + g.Label.Name
			if lblk == nil {
				c.Undecided(rule, key, g.Pos(), "CFG block of label %s not found", g.Label.Name)
				continue
			}
			var ts []string
			for t := range d.ownerTerms(f) {
				ts = append(ts, t)
			}
			sort.Strings(ts)
			if len(ts) != 1 {
				c.Undecided(rule, key, g.Pos(), "backward goto %s in %s: expected exactly one position term, found %v", g.Label.Name, fn, ts)
				continue
			}
			a.sum = nil
			a.stopAt = lblk
			init := c20NewD()
			init.v[ts[0]] = c20DVal{org: ts[0]}
			a.run(lblk, init)
			d.judge(rule, key, fn, g.Pos(), ts[0], a.back, "backward goto "+g.Label.Name)
		}
	}
	// replay with recording: call-site movements (R20e) and saved-position re-slices (R20c D)
	d.recorded = map[*types.Func]*c20DFn{}
	nrel := 0
	ordR := map[string]int{}
	for _, f := range fns {
		_, a := d.summarise(f, true)
		d.recorded[f] = a
		seen := map[*ast.SliceExpr]bool{}
		for _, r := range a.rels {
			if seen[r.node] {
				continue
			}
			seen[r.node] = true
			nrel++
			fn := names[e.decls[f]]
			key := "order:" + fn + ":" + c.src(r.node)
			ordR[key]++
			if ordR[key] > 1 {
				key += fmt.Sprintf("#%d", ordR[key])
			}
			switch {
			case !r.known:
				c.Info("R20c: not decided (relation between the saved position and the current one is lost): %s in %s at %s", c.src(r.node), fn, c.pos(r.node.Pos()))
			case r.val < 0:
				c.Viol("R20c", key, r.node.Pos(), "%s in %s: the upper bound may be %d below the lower bound — the position has moved back past the saved one (callee movement lower bounds: see R20d summaries); such a re-slice panics (slice bounds out of range [a:b] with a > b)", c.src(r.node), fn, -r.val)
			default:
				c.OK("R20c", key, r.node.Pos(), "upper bound >= lower bound (current position is >= %d past the saved one)", r.val)
			}
		}
	}
	for fn := range d.diverged {
		c.Undecided(rule, "dataflow:"+fn, token.NoPos, "the movement analysis of %s did not reach a fixpoint within its iteration budget: nothing about its loops is decided", fn)
	}
	c.MinCount("R20c", "re-slices between a saved and the current position", nrel, 14)
	c.MinCount(rule, "position loops in the slice", nloops, 16)
	c.MinCount(rule, "backward gotos in the slice", ngoto, 1)
	var sl []string
	for _, f := range fns {
		if len(d.ownerTerms(f)) > 0 {
			sl = append(sl, c20FuncName(f)+": "+d.showSum(f))
		}
	}
	c.Info("R20d: movement summaries: %s", strings.Join(sl, " | "))
}

func (d *c20Delta) judge(rule, key, fn string, pos token.Pos, t string, back *c20DState, what string) {
	c := d.c
	assumed := ""
	if as, has := c20dAssume[fn]; has {
		var ns []string
		for g := range as {
			ns = append(ns, g)
		}
		sort.Strings(ns)
		assumed = " (under the reviewed assumptions on " + strings.Join(ns, ", ") + ")"
	}
	if back == nil {
		c.OK(rule, key, pos, "%s in %s: no path returns to the head (every iteration leaves the loop)", what, fn)
		return
	}
	v, ok := back.v[t]
	switch {
	case !ok || v.org != t:
		c.Viol(rule, key, pos, "%s in %s: on some path back to the head the movement of %s is unbounded below (a callee or assignment moves it without a known lower bound) — an input can make the parser stay at the same position forever", what, fn, t)
	case v.lb < 1:
		c.Viol(rule, key, pos, "%s in %s: on some path back to the head %s moves by %+d (needs >= +1): %s — with that input the iteration re-reads the same rune forever (hang, memory grows)", what, fn, t, v.lb, strings.TrimSpace(v.why))
	default:
		c.OK(rule, key, pos, "%s in %s: %s moves by >= %+d on every path back to the head%s", what, fn, t, v.lb, assumed)
	}
}

// boundWritten: the loop bound expression (len(P) / identifier) is stable in the body.
func (d *c20Delta) boundWritten(a *c20DFn, lp *ast.ForStmt, n ast.Expr) string {
	var p string
	if call, ok := isBuiltinCall(d.info, n, "len"); ok && len(call.Args) == 1 {
		p = d.b.norm(a.fd, d.b.path(call.Args[0]))
	} else if _, isC := constInt(d.info, n); isC {
		return ""
	} else {
		p = d.b.norm(a.fd, d.b.path(n))
	}
	if p == "" {
		return "bound is not an access path"
	}
	fv := d.b.lastFld(p)
	why := ""
	ast.Inspect(lp.Body, func(x ast.Node) bool {
		switch s := x.(type) {
		case *ast.AssignStmt:
			for _, l := range s.Lhs {
				lp2 := d.b.norm(a.fd, d.b.path(l))
				if lp2 != "" && (lp2 == p || strings.HasPrefix(p, lp2+".")) {
					why = "assigned at " + d.c.pos(s.Pos())
				}
				if v, _ := fieldOf(d.info, l); v != nil && v == fv {
					why = "field assigned at " + d.c.pos(s.Pos())
				}
			}
		case *ast.CallExpr:
			fs, all := a.bf.writtenFields(s)
			if all {
				why = "call with unknown effects at " + d.c.pos(s.Pos())
			}
			for _, f := range fs {
				if fv != nil && f == fv {
					why = "written by the callee at " + d.c.pos(s.Pos())
				}
			}
		}
		return true
	})
	return why
}

func (c *Ctx) c20RuleE(e *c20Eng) {
	const rule = "R20e"
	c.Rule(rule, "recursion in the parse-only slice consumes input: in every call cycle of lang/expressions, each call hands over either the same parser after its position advanced (lower bound of the movement since the caller's entry >= 0 on every edge, and no cycle of zero-movement edges) or a sub-parser built on expression[charPos+k:] after the position advanced by >= 1")
	d := e.delta
	if d == nil {
		c.Lost(rule, "engine", "movement engine not initialised")
		return
	}
	var fns []*types.Func
	for f := range e.perFn {
		fns = append(fns, f)
	}
	sort.Slice(fns, func(i, j int) bool { return fns[i].FullName() < fns[j].FullName() })
	// call graph restricted to the slice (static calls reachable in parse-only context)
	type edge struct {
		from, to *types.Func
		c        c20DCall
	}
	var edges []edge
	inSlice := map[*types.Func]bool{}
	for _, f := range fns {
		inSlice[f] = true
	}
	for _, f := range fns {
		a := d.recorded[f]
		if a == nil {
			continue
		}
		for _, cl := range a.calls {
			if inSlice[cl.g] && e.reachCall[cl.call] != nil {
				edges = append(edges, edge{f, cl.g, cl})
			}
		}
	}
	// static edges that carry no position (callee has no position term) still matter for cycles
	succ := map[*types.Func][]*types.Func{}
	for call := range e.reachCall {
		g, ok := callee(e.info, call).(*types.Func)
		if !ok || !inSlice[g.Origin()] {
			continue
		}
		for _, f := range fns {
			fd := e.decls[f]
			if fd.Pos() <= call.Pos() && call.Pos() < fd.End() {
				succ[f] = append(succ[f], g.Origin())
			}
		}
	}
	// dynamic calls: processStatementFromExpr(method) — add edges to candidates by signature
	for _, dc := range e.dyns {
		for _, cr := range e.created {
			if cr.fn != nil && cr.sig != nil && types.Identical(cr.sig, dc.sig) && inSlice[cr.fn.Origin()] {
				succ[dc.fc.fn] = append(succ[dc.fc.fn], cr.fn.Origin())
			}
		}
	}
	// SCCs (Tarjan)
	index := map[*types.Func]int{}
	low := map[*types.Func]int{}
	on := map[*types.Func]bool{}
	var stack []*types.Func
	comp := map[*types.Func]int{}
	ncomp, idx := 0, 0
	var strong func(v *types.Func)
	strong = func(v *types.Func) {
		idx++
		index[v], low[v] = idx, idx
		stack = append(stack, v)
		on[v] = true
		for _, w := range succ[v] {
			if index[w] == 0 {
				strong(w)
				if low[w] < low[v] {
					low[v] = low[w]
				}
			} else if on[w] && index[w] < low[v] {
				low[v] = index[w]
			}
		}
		if low[v] == index[v] {
			ncomp++
			for {
				w := stack[len(stack)-1]
				stack = stack[:len(stack)-1]
				on[w] = false
				comp[w] = ncomp
				if w == v {
					break
				}
			}
		}
	}
	for _, f := range fns {
		if index[f] == 0 {
			strong(f)
		}
	}
	size := map[int]int{}
	for _, f := range fns {
		size[comp[f]]++
	}
	selfLoop := map[*types.Func]bool{}
	for f, ws := range succ {
		for _, w := range ws {
			if w == f {
				selfLoop[f] = true
			}
		}
	}
	names := c.c20EnclosingFuncs(e.pk)
	nrec := 0
	zero := map[*types.Func][]*types.Func{}
	covered := map[[2]*types.Func]bool{}
	ord := map[string]int{}
	sort.SliceStable(edges, func(i, j int) bool { return edges[i].c.call.Pos() < edges[j].c.call.Pos() })
	for _, ed := range edges {
		if comp[ed.from] != comp[ed.to] || (size[comp[ed.from]] == 1 && !selfLoop[ed.from]) {
			continue
		}
		nrec++
		covered[[2]*types.Func{ed.from, ed.to}] = true
		key := "rec:" + names[e.decls[ed.from]] + "→" + c20FuncName(ed.to)
		ord[key]++
		if ord[key] > 1 {
			key += fmt.Sprintf("#%d", ord[key])
		}
		pos := ed.c.call.Pos()
		switch {
		case ed.c.sub && ed.c.w >= 1:
			c.OK(rule, key, pos, "recursive call on a sub-parser whose text starts >= %d runes after the caller's entry position (strictly shorter input)", ed.c.w)
		case ed.c.sub:
			c.Viol(rule, key, pos, "recursive call %s on a sub-parser built at a position that has not provably advanced since %s was entered (lower bound %d): the callee may get the same text again — unbounded recursion (stack overflow) on some input", c.src(ed.c.call), names[e.decls[ed.from]], ed.c.w)
		case ed.c.w <= c20NegInf/2 || ed.c.w < 0:
			c.Viol(rule, key, pos, "recursive call %s in %s: the position handed over may be before the caller's entry position (%s) — recursion without consuming input", c.src(ed.c.call), names[e.decls[ed.from]], strings.TrimSpace(ed.c.why))
		case ed.c.w == 0:
			zero[ed.from] = append(zero[ed.from], ed.to)
			c.OK(rule, key, pos, "recursive call at the caller's entry position (movement 0): allowed only if it closes no zero-movement cycle (checked per cycle)")
		default:
			c.OK(rule, key, pos, "recursive call after the position advanced by >= %d since the caller's entry", ed.c.w)
		}
	}
	// edges of a cycle that carry no position term at all
	for f, ws := range succ {
		for _, w := range ws {
			if comp[f] == comp[w] && (size[comp[f]] > 1 || selfLoop[f]) && !covered[[2]*types.Func{f, w}] {
				covered[[2]*types.Func{f, w}] = true
				nrec++
				if len(d.ownerTerms(w)) == 0 {
					c.Undecided(rule, "rec:"+c20FuncName(f)+"→"+c20FuncName(w), e.decls[f].Pos(), "call cycle through %s → %s carries no parser position: termination of the recursion is not decided", c20FuncName(f), c20FuncName(w))
				} else {
					zero[f] = append(zero[f], w) // through a function value or unmapped receiver: treated as movement 0
					c.OK(rule, "rec:"+c20FuncName(f)+"→"+c20FuncName(w), e.decls[f].Pos(), "indirect recursive call (function value): counted as movement 0, checked per cycle")
				}
			}
		}
	}
	// zero-movement cycles
	state := map[*types.Func]int{}
	var cyc []string
	var dfs func(v *types.Func, path []*types.Func)
	dfs = func(v *types.Func, path []*types.Func) {
		state[v] = 1
		for _, w := range zero[v] {
			if state[w] == 1 {
				var ns []string
				for _, p := range append(path, v, w) {
					ns = append(ns, c20FuncName(p))
				}
				cyc = append(cyc, strings.Join(ns, " → "))
			} else if state[w] == 0 {
				dfs(w, append(path, v))
			}
		}
		state[v] = 2
	}
	for _, f := range fns {
		if state[f] == 0 {
			dfs(f, nil)
		}
	}
	if len(cyc) > 0 {
		sort.Strings(cyc)
		for _, cy := range cyc {
			c.Viol(rule, "cycle:"+cy, token.NoPos, "call cycle %s hands the parser over at the caller's entry position on every edge: recursion without consuming input (stack overflow on some input)", cy)
		}
	} else {
		c.OK(rule, "cycle:zero-movement", token.NoPos, "no call cycle consists of zero-movement edges only")
	}
	c.MinCount(rule, "recursive call edges in the slice", nrec, 45)
}
