package main

// C21 — external commands report their real exit status.
//
// This file also holds the small SSA path engine (prefix c21) that the rules of
// C21–C24 share: enumeration of the acyclic control-flow paths that leave an
// instruction, carrying the branch facts met on the way and the φ-bindings of
// the path, so that a rule can say "on every path on which this error value is
// non-nil, the function …".

import (
	"fmt"
	"go/ast"
	"go/constant"
	"go/token"
	"go/types"
	"os"
	"strings"

	"golang.org/x/tools/go/packages"
	"golang.org/x/tools/go/ssa"
)

func init() {
	register("C21", "Decides (structurally, over every control-flow path of lang.execFork / lang.External / sysProcT.ExitNum / process.SystemProcess.ExitNum / the error arm of lang.executeProcess): a non-nil error of (*exec.Cmd).Start/Wait is never dropped — every path on which it is non-nil returns a non-nil error or stores a provably positive number into Process.ExitNum (single frozen exemption: ECHILD, status unknowable); External copies SystemProcess.ExitNum() of the same process on error and re-returns the error; the exit number comes from ProcessState.ExitCode() of the command that was waited for (SystemProcess.Set(&sysProcT{cmd}) dominates Wait on the same cmd); fall-back exit numbers are positive constants; every error produced in executeProcess's resolution arms flows to the test that turns a non-nil error into ExitNum>=1. Does NOT decide the numeric value for signalled processes, other GOOS builds, nor exit numbers set by builtins.", runC21)
}

// ============================================================ shared SSA helpers

// c21Funcs returns the SSA functions of every declaration (and nested
// function literal) of a package, in source order.
func (c *Ctx) c21Funcs(pk *packages.Package) []*ssa.Function {
	var out []*ssa.Function
	var addAnon func(f *ssa.Function)
	addAnon = func(f *ssa.Function) {
		for _, a := range f.AnonFuncs {
			out = append(out, a)
			addAnon(a)
		}
	}
	for _, file := range pk.Syntax {
		for _, d := range file.Decls {
			fd, ok := d.(*ast.FuncDecl)
			if !ok || fd.Body == nil {
				continue
			}
			fn := c.SSAFunc(pk, fd)
			if fn == nil || len(fn.Blocks) == 0 {
				continue
			}
			out = append(out, fn)
			addAnon(fn)
		}
	}
	return out
}

// c21FuncName: printable, position-free name of an SSA function ("lang.execFork",
// "lang/process.(SystemProcess).ExitNum", "lang.execFork$1").
func c21FuncName(fn *ssa.Function) string {
	if fn == nil {
		return "?"
	}
	if fn.Parent() != nil {
		return c21FuncName(fn.Parent()) + "$" + strings.TrimPrefix(fn.Name(), fn.Parent().Name()+"$")
	}
	p := ""
	if fn.Pkg != nil {
		p = relPkg(fn.Pkg.Pkg.Path()) + "."
	} else if o := fn.Object(); o != nil && o.Pkg() != nil {
		p = relPkg(o.Pkg().Path()) + "."
	}
	if fn.Signature != nil && fn.Signature.Recv() != nil {
		return p + "(" + namedName(fn.Signature.Recv().Type()) + ")." + fn.Name()
	}
	return p + fn.Name()
}

// c21Callee: the static callee (function or method) of a call instruction, or nil.
func c21Callee(ci ssa.CallInstruction) *ssa.Function {
	if ci == nil {
		return nil
	}
	return ci.Common().StaticCallee()
}

// c21IsCallTo: call statically resolves to pkgPath.[recv.]name. Interface
// method calls (invoke mode) match on the interface's named type.
func c21IsCallTo(ci ssa.CallInstruction, pkgPath, recv, name string) bool {
	cc := ci.Common()
	if cc.IsInvoke() {
		m := cc.Method
		if m == nil || m.Name() != name {
			return false
		}
		return m.Pkg() != nil && m.Pkg().Path() == pkgPath && namedName(cc.Value.Type()) == recv
	}
	fn := cc.StaticCallee()
	if fn == nil {
		return false
	}
	o := fn.Object()
	if o == nil {
		return false
	}
	return objIs(o, pkgPath, recv, name)
}

// c21CallArgs returns the user-level arguments (receiver first for methods).
func c21CallArgs(ci ssa.CallInstruction) []ssa.Value {
	cc := ci.Common()
	if cc.IsInvoke() {
		return append([]ssa.Value{cc.Value}, cc.Args...)
	}
	return cc.Args
}

// c21ErrResult returns the error-typed result of a call: the call value itself
// for single-result functions, or the Extract of the last tuple component.
// ok=false when the call has no error result; val=nil when the error component
// is never extracted (the error is ignored).
func c21ErrResult(ci ssa.CallInstruction) (val ssa.Value, has bool) {
	v := ci.Value()
	if v == nil { // go / defer
		return nil, false
	}
	sig := ci.Common().Signature()
	n := sig.Results().Len()
	if n == 0 || !c21IsErrorType(sig.Results().At(n-1).Type()) {
		return nil, false
	}
	if n == 1 {
		if refs := v.Referrers(); refs == nil || len(*refs) == 0 {
			return nil, true
		}
		return v, true
	}
	return c21Extract(v, n-1), true
}

func c21Extract(tuple ssa.Value, idx int) ssa.Value {
	refs := tuple.Referrers()
	if refs == nil {
		return nil
	}
	for _, r := range *refs {
		if e, ok := r.(*ssa.Extract); ok && e.Index == idx {
			return e
		}
	}
	return nil
}

func c21IsErrorType(t types.Type) bool {
	n, ok := t.(*types.Named)
	return ok && n.Obj().Pkg() == nil && n.Obj().Name() == "error"
}

func c21IsNilConst(v ssa.Value) bool {
	k, ok := v.(*ssa.Const)
	return ok && k.Value == nil
}

func c21ConstInt(v ssa.Value) (int64, bool) {
	k, ok := v.(*ssa.Const)
	if !ok || k.Value == nil || k.Value.Kind() != constant.Int {
		return 0, false
	}
	return constant.Int64Val(k.Value)
}

func c21ConstString(v ssa.Value) (string, bool) {
	k, ok := v.(*ssa.Const)
	if !ok || k.Value == nil || k.Value.Kind() != constant.String {
		return "", false
	}
	return constant.StringVal(k.Value), true
}

func c21ConstBool(v ssa.Value) (bool, bool) {
	k, ok := v.(*ssa.Const)
	if !ok || k.Value == nil || k.Value.Kind() != constant.Bool {
		return false, false
	}
	return constant.BoolVal(k.Value), true
}

// c21Field: v is the address (FieldAddr) or value (Field) of a struct field;
// returns the base value, the owning named struct ("pkgpath.T") and field name.
func c21Field(v ssa.Value) (base ssa.Value, owner, field string, ok bool) {
	switch x := v.(type) {
	case *ssa.FieldAddr:
		st := structOf(x.X.Type())
		if st == nil {
			return nil, "", "", false
		}
		return x.X, namedPath(x.X.Type()), st.Field(x.Field).Name(), true
	case *ssa.Field:
		st := structOf(x.X.Type())
		if st == nil {
			return nil, "", "", false
		}
		return x.X, namedPath(x.X.Type()), st.Field(x.Field).Name(), true
	}
	return nil, "", "", false
}

// c21Load: v is a load `*addr`; returns addr.
func c21Load(v ssa.Value) (ssa.Value, bool) {
	u, ok := v.(*ssa.UnOp)
	if ok && u.Op == token.MUL {
		return u.X, true
	}
	return nil, false
}

// c21Desc renders a value structurally (callee names, constants, field names —
// never local variable names), for obligation keys and messages.
func c21Desc(v ssa.Value) string { return c21DescN(v, 4) }

// c21Names: values that obligation keys call by a role name ("err") instead of
// by their defining expression. Set by FactsDesc for the duration of a rendering.
var c21Names map[ssa.Value]string

func c21DescN(v ssa.Value, depth int) string {
	if v == nil {
		return "<nil>"
	}
	if n, ok := c21Names[v]; ok {
		return n
	}
	if o := c21Origin(v); o != v {
		return c21DescN(o, depth)
	}
	if depth == 0 {
		return "…"
	}
	switch x := v.(type) {
	case *ssa.Const:
		if x.Value == nil {
			return "nil"
		}
		return x.Value.ExactString()
	case *ssa.Parameter:
		for i, p := range x.Parent().Params {
			if p == x {
				return fmt.Sprintf("$%d", i)
			}
		}
		return "$?"
	case *ssa.Global:
		return x.Name()
	case *ssa.Function:
		return c21FuncName(x)
	case *ssa.Call:
		return c21CallDesc(x, depth)
	case *ssa.Extract:
		return c21DescN(x.Tuple, depth) + "#" + fmt.Sprint(x.Index)
	case *ssa.BinOp:
		return c21DescN(x.X, depth-1) + x.Op.String() + c21DescN(x.Y, depth-1)
	case *ssa.UnOp:
		if x.Op == token.MUL {
			return c21DescN(x.X, depth)
		}
		return x.Op.String() + c21DescN(x.X, depth-1)
	case *ssa.FieldAddr, *ssa.Field:
		b, _, f, _ := c21Field(v)
		return c21DescN(b, depth-1) + "." + f
	case *ssa.IndexAddr:
		return c21DescN(x.X, depth-1) + "[" + c21DescN(x.Index, depth-1) + "]"
	case *ssa.Index:
		return c21DescN(x.X, depth-1) + "[" + c21DescN(x.Index, depth-1) + "]"
	case *ssa.Lookup:
		return c21DescN(x.X, depth-1) + "[" + c21DescN(x.Index, depth-1) + "]"
	case *ssa.Slice:
		s := c21DescN(x.X, depth-1) + "["
		if x.Low != nil {
			s += c21DescN(x.Low, depth-1)
		}
		s += ":"
		if x.High != nil {
			s += c21DescN(x.High, depth-1)
		}
		return s + "]"
	case *ssa.Phi:
		return "φ"
	case *ssa.Alloc:
		return "new(" + types.TypeString(x.Type().(*types.Pointer).Elem(), func(p *types.Package) string { return p.Name() }) + ")"
	case *ssa.MakeInterface:
		return c21DescN(x.X, depth)
	case *ssa.ChangeType:
		return c21DescN(x.X, depth)
	case *ssa.Convert:
		return types.TypeString(x.Type(), func(p *types.Package) string { return p.Name() }) + "(" + c21DescN(x.X, depth-1) + ")"
	case *ssa.TypeAssert:
		return c21DescN(x.X, depth-1) + ".(" + types.TypeString(x.AssertedType, func(p *types.Package) string { return p.Name() }) + ")"
	}
	return strings.TrimPrefix(fmt.Sprintf("%T", v), "*ssa.")
}

func c21CallDesc(ci ssa.CallInstruction, depth int) string {
	cc := ci.Common()
	var name string
	args := cc.Args
	switch {
	case cc.IsInvoke():
		name = c21DescN(cc.Value, depth-1) + "." + cc.Method.Name()
	case cc.StaticCallee() != nil:
		fn := cc.StaticCallee()
		if fn.Signature.Recv() != nil && len(args) > 0 {
			name = c21DescN(args[0], depth-1) + "." + fn.Name()
			args = args[1:]
		} else if fn.Pkg != nil {
			name = fn.Pkg.Pkg.Name() + "." + fn.Name()
		} else {
			name = fn.Name()
		}
	default:
		if b, ok := cc.Value.(*ssa.Builtin); ok {
			name = b.Name()
		} else {
			name = "(" + c21DescN(cc.Value, depth-1) + ")"
		}
	}
	var as []string
	for _, a := range args {
		as = append(as, c21DescN(a, depth-1))
	}
	return name + "(" + strings.Join(as, ",") + ")"
}

// c21Origin strips loads of single-assignment cells: a parameter or local that
// is captured by a closure lives in an Alloc that is stored exactly once; a
// load of that cell is the stored value.
func c21Origin(v ssa.Value) ssa.Value {
	for i := 0; i < 8; i++ {
		switch x := v.(type) {
		case *ssa.UnOp:
			if x.Op != token.MUL {
				return v
			}
			al, ok := x.X.(*ssa.Alloc)
			if !ok {
				return v
			}
			var stored ssa.Value
			n := 0
			for _, r := range *al.Referrers() {
				if st, ok := r.(*ssa.Store); ok && st.Addr == ssa.Value(al) {
					n++
					stored = st.Val
				}
			}
			if n != 1 {
				return v
			}
			v = stored
		case *ssa.ChangeType:
			v = x.X
		default:
			return v
		}
	}
	return v
}

// c21Dump prints the SSA of a function when MUREXLINT_DUMP names it (debug aid).
func c21Dump(fn *ssa.Function) {
	if fn != nil && os.Getenv("MUREXLINT_DUMP") != "" && strings.Contains(c21FuncName(fn), os.Getenv("MUREXLINT_DUMP")) {
		fn.WriteTo(os.Stderr)
	}
}

// c21IsGlobalFuncCall: dynamic call through the package-level func variable pkgPath.name.
func c21IsGlobalFuncCall(ci ssa.CallInstruction, pkgPath, name string) bool {
	cc := ci.Common()
	if cc.IsInvoke() || cc.StaticCallee() != nil {
		return false
	}
	a, ok := c21Load(cc.Value)
	if !ok {
		return false
	}
	g, ok := a.(*ssa.Global)
	return ok && g.Name() == name && g.Pkg != nil && g.Pkg.Pkg.Path() == pkgPath
}

// ------------------------------------------------------------ paths

type c21Fact struct {
	Cond ssa.Value
	True bool
}

// c21Path is one acyclic control-flow path leaving an instruction.
type c21Path struct {
	Blocks []*ssa.BasicBlock
	Facts  []c21Fact
	Instrs []ssa.Instruction
	End    ssa.Instruction // *ssa.Return, *ssa.Panic; nil = stopped (Stop) or cycle
	Stop   *ssa.BasicBlock // the stop block reached (loop head …), when End == nil
	Cycle  bool
	phi    map[*ssa.Phi]ssa.Value
}

// R resolves φ-nodes bound on this path (and strips value-preserving wrappers).
func (p *c21Path) R(v ssa.Value) ssa.Value {
	for i := 0; i < 16; i++ {
		switch x := v.(type) {
		case *ssa.Phi:
			if w, ok := p.phi[x]; ok {
				v = w
				continue
			}
		case *ssa.ChangeType:
			v = x.X
			continue
		case *ssa.ChangeInterface:
			v = x.X
			continue
		case *ssa.UnOp:
			if o := c21Origin(x); o != ssa.Value(x) {
				v = o
				continue
			}
			if w := p.loadVal(x); w != nil {
				v = w
				continue
			}
		}
		break
	}
	return v
}

// loadVal: x is a load of a local cell on this path; the value is the last
// store into that cell earlier on the path (named results, results of
// functions with defers).
func (p *c21Path) loadVal(x *ssa.UnOp) ssa.Value {
	if x.Op != token.MUL {
		return nil
	}
	al, ok := x.X.(*ssa.Alloc)
	if !ok {
		return nil
	}
	at := -1
	for i, in := range p.Instrs {
		if in == ssa.Instruction(x) {
			at = i
		}
	}
	for i := at - 1; i >= 0; i-- {
		if st, ok := p.Instrs[i].(*ssa.Store); ok && st.Addr == ssa.Value(al) {
			return st.Val
		}
	}
	return nil
}

// c21RetVals lists, for result #idx, the value of every normal return of fn
// (the recover block excluded); a load of a result cell is replaced by the last
// store into it in the returning block; a φ is expanded into its edges.
func c21RetVals(fn *ssa.Function, idx int) (rets []*ssa.Return, vals [][]ssa.Value) {
	for _, b := range fn.Blocks {
		if b == fn.Recover || len(b.Instrs) == 0 {
			continue
		}
		r, ok := b.Instrs[len(b.Instrs)-1].(*ssa.Return)
		if !ok || idx >= len(r.Results) {
			continue
		}
		v := r.Results[idx]
		if u, ok := v.(*ssa.UnOp); ok && u.Op == token.MUL {
			if al, ok := u.X.(*ssa.Alloc); ok {
				for i := len(b.Instrs) - 1; i >= 0; i-- {
					if st, ok := b.Instrs[i].(*ssa.Store); ok && st.Addr == ssa.Value(al) {
						v = st.Val
						break
					}
				}
			}
		}
		var vs []ssa.Value
		if ph, ok := v.(*ssa.Phi); ok {
			vs = append(vs, ph.Edges...)
		} else {
			vs = []ssa.Value{v}
		}
		rets = append(rets, r)
		vals = append(vals, vs)
	}
	return
}

// c21PathOpts controls enumeration.
type c21PathOpts struct {
	// Prune is asked at every branch; returning true abandons that edge
	// (e.g. "the tracked error is nil on this edge").
	Prune func(p *c21Path, f c21Fact) bool
	// StopAt ends a path on entering such a block (loop heads).
	StopAt func(b *ssa.BasicBlock) bool
	Limit  int
}

// c21PathsFrom enumerates the acyclic paths that leave instruction `start`
// (exclusive). overflow=true when more than Limit paths exist.
func c21PathsFrom(start ssa.Instruction, opt c21PathOpts) (paths []*c21Path, overflow bool) {
	if opt.Limit == 0 {
		opt.Limit = 256
	}
	b := start.Block()
	idx := -1
	for i, in := range b.Instrs {
		if in == start {
			idx = i
		}
	}
	if idx < 0 {
		return nil, false
	}
	var walk func(p *c21Path, b *ssa.BasicBlock, from int)
	walk = func(p *c21Path, b *ssa.BasicBlock, from int) {
		if overflow {
			return
		}
		p.Blocks = append(p.Blocks, b)
		for _, in := range b.Instrs[from:] {
			p.Instrs = append(p.Instrs, in)
			switch t := in.(type) {
			case *ssa.Return, *ssa.Panic:
				p.End = in
				paths = append(paths, p)
				if len(paths) > opt.Limit {
					overflow = true
				}
				return
			case *ssa.Jump:
				c21Enter(p, b, b.Succs[0], opt, walk, &paths)
				return
			case *ssa.If:
				cond, flip := c21StripNot(t.Cond)
				// a condition held in a boolean local (`b := x && y; if b {…}`) is a φ
				// that this path has bound to one operand: the fact is about that
				// operand (the φ may be re-bound later, so resolve it now)
				if _, isPhi := cond.(*ssa.Phi); isPhi {
					if w := p.R(cond); w != cond {
						if _, isConst := w.(*ssa.Const); !isConst {
							c2, f2 := c21StripNot(w)
							cond, flip = c2, flip != f2
						}
					}
				}
				for k, s := range b.Succs {
					truth := (k == 0) != flip
					// constant conditions: only the live edge
					if cb, ok := c21ConstBool(p.R(cond)); ok && cb != truth {
						continue
					}
					f := c21Fact{cond, truth}
					if c21Contradicts(p, f) {
						continue
					}
					q := p.fork()
					q.Facts = append(q.Facts, f)
					if opt.Prune != nil && opt.Prune(q, f) {
						continue
					}
					c21Enter(q, b, s, opt, walk, &paths)
				}
				return
			}
		}
		// block without terminator (unreachable code) — drop
	}
	p0 := &c21Path{phi: map[*ssa.Phi]ssa.Value{}}
	walk(p0, b, idx+1)
	return paths, overflow
}

func (p *c21Path) fork() *c21Path {
	q := &c21Path{
		Blocks: append([]*ssa.BasicBlock(nil), p.Blocks...),
		Facts:  append([]c21Fact(nil), p.Facts...),
		Instrs: append([]ssa.Instruction(nil), p.Instrs...),
		phi:    make(map[*ssa.Phi]ssa.Value, len(p.phi)),
	}
	for k, v := range p.phi {
		q.phi[k] = v
	}
	return q
}

func c21Enter(p *c21Path, from, to *ssa.BasicBlock, opt c21PathOpts, walk func(*c21Path, *ssa.BasicBlock, int), paths *[]*c21Path) {
	if opt.StopAt != nil && opt.StopAt(to) {
		c21BindPhis(p, from, to)
		p.Stop = to
		*paths = append(*paths, p)
		return
	}
	for _, b := range p.Blocks {
		if b == to {
			p.Cycle = true
			p.Stop = to
			*paths = append(*paths, p)
			return
		}
	}
	c21BindPhis(p, from, to)
	walk(p, to, 0)
}

func c21BindPhis(p *c21Path, from, to *ssa.BasicBlock) {
	pi := -1
	for i, q := range to.Preds {
		if q == from {
			pi = i
			break
		}
	}
	if pi < 0 {
		return
	}
	// φ-nodes are evaluated in parallel: resolve all against the old bindings first
	type bind struct {
		phi *ssa.Phi
		v   ssa.Value
	}
	var bs []bind
	for _, in := range to.Instrs {
		ph, ok := in.(*ssa.Phi)
		if !ok {
			break
		}
		bs = append(bs, bind{ph, p.R(ph.Edges[pi])})
	}
	for _, b := range bs {
		p.phi[b.phi] = b.v
	}
}

// c21StripNot reduces a boolean value to the value it negates or compares with a
// boolean constant: !x, x == false, x != true → (x, flipped); x == true,
// x != false → (x, not flipped).
func c21StripNot(v ssa.Value) (ssa.Value, bool) {
	flip := false
	for {
		switch u := v.(type) {
		case *ssa.UnOp:
			if u.Op == token.NOT {
				v = u.X
				flip = !flip
				continue
			}
		case *ssa.BinOp:
			if u.Op == token.EQL || u.Op == token.NEQ {
				if cb, ok := c21ConstBool(u.Y); ok {
					v = u.X
					flip = flip != ((u.Op == token.EQL) != cb)
					continue
				}
				if cb, ok := c21ConstBool(u.X); ok {
					v = u.Y
					flip = flip != ((u.Op == token.EQL) != cb)
					continue
				}
			}
		}
		return v, flip
	}
}

func c21Contradicts(p *c21Path, f c21Fact) bool {
	for _, g := range p.Facts {
		if g.Cond == f.Cond && g.True != f.True {
			// the same SSA value cannot be both true and false, unless it is a
			// φ re-bound in between — φ conditions are compared after resolution
			if _, isPhi := f.Cond.(*ssa.Phi); !isPhi {
				return true
			}
		}
	}
	return false
}

// NilFact: what the path knows about v == nil. known=false when v was never
// compared with nil on the path.
func (p *c21Path) NilFact(v ssa.Value) (known, isNil bool) {
	v = p.R(v)
	for _, f := range p.Facts {
		b, ok := f.Cond.(*ssa.BinOp)
		if !ok || (b.Op != token.EQL && b.Op != token.NEQ) {
			continue
		}
		var other ssa.Value
		switch {
		case c21IsNilConst(b.Y):
			other = b.X
		case c21IsNilConst(b.X):
			other = b.Y
		default:
			continue
		}
		if p.R(other) != v {
			continue
		}
		return true, (b.Op == token.EQL) == f.True
	}
	return false, false
}

// c21NilTestOf: fact is a nil comparison of v; returns (isNilOnThisEdge, ok).
func c21NilTestOf(p *c21Path, f c21Fact, v ssa.Value) (bool, bool) {
	b, ok := f.Cond.(*ssa.BinOp)
	if !ok || (b.Op != token.EQL && b.Op != token.NEQ) {
		return false, false
	}
	var other ssa.Value
	switch {
	case c21IsNilConst(b.Y):
		other = b.X
	case c21IsNilConst(b.X):
		other = b.Y
	default:
		return false, false
	}
	if p.R(other) != p.R(v) {
		return false, false
	}
	return (b.Op == token.EQL) == f.True, true
}

// c21PruneNil: path option that abandons edges on which v is known nil.
func c21PruneNil(v ssa.Value) func(p *c21Path, f c21Fact) bool {
	return func(p *c21Path, f c21Fact) bool {
		isNil, ok := c21NilTestOf(p, f, v)
		return ok && isNil
	}
}

// FactsDesc: the branch facts of the path other than nil tests of `skip`,
// structurally rendered and sorted — the path's identity in obligation keys.
func (p *c21Path) FactsDesc(skip ssa.Value) string {
	var out []string
	if skip != nil {
		c21Names = map[ssa.Value]string{skip: "err"}
		defer func() { c21Names = nil }()
	}
	for _, f := range p.Facts {
		if skip != nil {
			if _, ok := c21NilTestOf(p, f, skip); ok {
				continue
			}
		}
		t := "T"
		if !f.True {
			t = "F"
		}
		out = append(out, c21Desc(f.Cond)+"="+t)
	}
	return strings.Join(out, " ∧ ")
}

// ReturnsNonNil classifies result #idx of the path's Return with respect to
// nil-ness: "nonnil", "nil", "unknown" (or "noreturn").
func (p *c21Path) ReturnsNonNil(idx int, tracked ssa.Value) (string, ssa.Value) {
	r, ok := p.End.(*ssa.Return)
	if !ok || idx >= len(r.Results) {
		return "noreturn", nil
	}
	v := p.R(r.Results[idx])
	return p.nilness(v, tracked, 0), v
}

func (p *c21Path) nilness(v, tracked ssa.Value, depth int) string {
	v = p.R(v)
	if c21IsNilConst(v) {
		return "nil"
	}
	if tracked != nil && v == p.R(tracked) {
		return "nonnil" // we are on a path where tracked != nil is assumed
	}
	if known, isNil := p.NilFact(v); known {
		if isNil {
			return "nil"
		}
		return "nonnil"
	}
	switch x := v.(type) {
	case *ssa.Call:
		if fn := x.Common().StaticCallee(); fn != nil && fn.Pkg != nil {
			pp, n := fn.Pkg.Pkg.Path(), fn.Name()
			if (pp == "fmt" && n == "Errorf") || (pp == "errors" && n == "New") {
				return "nonnil"
			}
		}
	case *ssa.MakeInterface:
		if _, isPtr := x.X.Type().Underlying().(*types.Pointer); !isPtr {
			return "nonnil"
		}
		if _, ok := x.X.(*ssa.Alloc); ok {
			return "nonnil"
		}
	case *ssa.Alloc, *ssa.MakeMap, *ssa.MakeSlice, *ssa.MakeChan, *ssa.MakeClosure:
		return "nonnil"
	}
	return "unknown"
}

// Stores returns the stores on the path into field `field` of struct owner.
func (p *c21Path) Stores(owner, field string) []*ssa.Store {
	var out []*ssa.Store
	for _, in := range p.Instrs {
		st, ok := in.(*ssa.Store)
		if !ok {
			continue
		}
		if _, ow, f, ok := c21Field(st.Addr); ok && ow == owner && f == field {
			out = append(out, st)
		}
	}
	return out
}

// Calls returns the call instructions on the path.
func (p *c21Path) Calls() []ssa.CallInstruction {
	var out []ssa.CallInstruction
	for _, in := range p.Instrs {
		if ci, ok := in.(ssa.CallInstruction); ok {
			out = append(out, ci)
		}
	}
	return out
}

// c21Positive: v is provably > 0. Recognised: positive integer constant;
// φ of such; (positive const) + (non-negative); conversion of such; a call of a
// murex function all of whose returns are such (depth 2). Non-negative: constant
// >= 0, len(), conversion of a syscall.Signal (signal numbers are >= 1).
func c21Positive(v ssa.Value, depth int) bool {
	if depth > 3 {
		return false
	}
	switch x := v.(type) {
	case *ssa.Const:
		k, ok := c21ConstInt(x)
		return ok && k > 0
	case *ssa.Phi:
		for _, e := range x.Edges {
			if e == v {
				continue
			}
			if !c21Positive(e, depth+1) {
				return false
			}
		}
		return len(x.Edges) > 0
	case *ssa.Convert:
		return c21Positive(x.X, depth+1)
	case *ssa.ChangeType:
		return c21Positive(x.X, depth+1)
	case *ssa.BinOp:
		if x.Op == token.ADD {
			return (c21Positive(x.X, depth+1) && c21NonNeg(x.Y, depth+1)) || (c21NonNeg(x.X, depth+1) && c21Positive(x.Y, depth+1))
		}
	case *ssa.Call:
		fn := x.Common().StaticCallee()
		if fn == nil || len(fn.Blocks) == 0 || fn.Pkg == nil || !strings.HasPrefix(fn.Pkg.Pkg.Path(), modPath) {
			return false
		}
		n := 0
		for _, b := range fn.Blocks {
			if r, ok := b.Instrs[len(b.Instrs)-1].(*ssa.Return); ok && len(r.Results) == 1 {
				n++
				if !c21Positive(r.Results[0], depth+1) {
					return false
				}
			}
		}
		return n > 0
	}
	return false
}

func c21NonNeg(v ssa.Value, depth int) bool {
	if depth > 3 {
		return false
	}
	if c21Positive(v, depth) {
		return true
	}
	switch x := v.(type) {
	case *ssa.Const:
		k, ok := c21ConstInt(x)
		return ok && k >= 0
	case *ssa.Convert:
		if namedPath(x.X.Type()) == "syscall.Signal" {
			return true
		}
		return c21NonNeg(x.X, depth+1)
	case *ssa.Call:
		if b, ok := x.Common().Value.(*ssa.Builtin); ok && b.Name() == "len" {
			return true
		}
		if fn := x.Common().StaticCallee(); fn != nil && fn.Name() == "Signal" && namedPath(x.Type()) == "syscall.Signal" {
			return true
		}
	}
	return false
}

// c21ParamOfType returns the first parameter of fn whose type is *pkgPath.Name.
func c21ParamOfType(fn *ssa.Function, typePath string) *ssa.Parameter {
	for _, p := range fn.Params {
		if _, isPtr := p.Type().(*types.Pointer); isPtr && namedPath(p.Type()) == typePath {
			return p
		}
	}
	return nil
}

// c21EdgeDominates: every path from entry to block u passes the edge b→s.
func c21EdgeDominates(b, s, u *ssa.BasicBlock) bool {
	if !s.Dominates(u) {
		return false
	}
	for _, q := range s.Preds {
		if q == b {
			continue
		}
		if !s.Dominates(q) { // a second way into s that does not come from s itself (back edge)
			return false
		}
	}
	return true
}

// c21GuardedBy: block u is reachable only through an edge on which `pred`
// classifies the branch condition as holding. pred(cond, truth) is asked for
// every If edge that dominates u.
func c21GuardedBy(u *ssa.BasicBlock, pred func(cond ssa.Value, truth bool) bool) bool {
	fn := u.Parent()
	for _, b := range fn.Blocks {
		if len(b.Instrs) == 0 {
			continue
		}
		iff, ok := b.Instrs[len(b.Instrs)-1].(*ssa.If)
		if !ok || !b.Dominates(u) {
			continue
		}
		cond, flip := c21StripNot(iff.Cond)
		for k, s := range b.Succs {
			if b.Succs[0] == b.Succs[1] {
				continue
			}
			truth := (k == 0) != flip
			if c21EdgeDominates(b, s, u) && pred(cond, truth) {
				return true
			}
		}
	}
	return false
}

// c21Reaches: block `to` is reachable from `from` without entering `avoid`.
func c21Reaches(from, to, avoid *ssa.BasicBlock) bool {
	seen := map[*ssa.BasicBlock]bool{}
	var dfs func(b *ssa.BasicBlock) bool
	dfs = func(b *ssa.BasicBlock) bool {
		if b == avoid || seen[b] {
			return false
		}
		if b == to {
			return true
		}
		seen[b] = true
		for _, s := range b.Succs {
			if dfs(s) {
				return true
			}
		}
		return false
	}
	return dfs(from)
}

func (c *Ctx) c21Pos(in ssa.Instruction) token.Pos {
	if in == nil {
		return token.NoPos
	}
	if p := in.Pos(); p.IsValid() {
		return p
	}
	if v, ok := in.(ssa.Value); ok {
		// fall back to the position of any operand-producing instruction nearby
		if refs := v.Referrers(); refs != nil {
			for _, r := range *refs {
				if r.Pos().IsValid() {
					return r.Pos()
				}
			}
		}
	}
	// last resort: the function
	if b := in.Block(); b != nil {
		for _, o := range b.Instrs {
			if o.Pos().IsValid() {
				return o.Pos()
			}
		}
		return b.Parent().Pos()
	}
	return token.NoPos
}

type c21KeySet map[string]int

// uniq makes a key unique within a run in a deterministic way.
func (ks c21KeySet) uniq(k string) string {
	ks[k]++
	if ks[k] == 1 {
		return k
	}
	return fmt.Sprintf("%s#%d", k, ks[k])
}

// ============================================================ C21 rules

const (
	c21ProcessT = modPath + "/lang.Process"
	c21SysProcT = modPath + "/lang/process.SystemProcess"
)

// c21Unknowable: error texts of (*exec.Cmd).Wait for which no exit status
// exists at all, so that no exit number can be demanded. Frozen, one entry:
// ECHILD — the child was already reaped by someone else (ProcessState is nil).
var c21Unknowable = map[string]string{
	"wait: no child processes": "ECHILD: the child was reaped elsewhere, ProcessState is nil — no status exists to report",
}

func runC21(c *Ctx) {
	c.Load("lang", "lang/process")
	pk := c.Pkg("lang")
	if pk == nil {
		c.Lost("R21a", "pkg:lang", "package lang not loaded")
		return
	}
	c.SSAPkg("lang")
	c.SSAPkg("lang/process")
	keys := c21KeySet{}

	// ------------------------------------------------------------ R21a
	c.Rule("R21a", "in package lang, for every call of (*exec.Cmd).Start/Wait/Run: on every control-flow path on which the returned error is non-nil, the function returns a non-nil error or stores a provably positive value into the ExitNum of its *Process parameter (try/trypipe test `exitNum > 0`, so -1 and 0 both mean success); the only exempt path is the frozen ECHILD text (no status exists). An ignored error result is a violation")
	nSites := 0
	for _, fn := range c.c21Funcs(pk) {
		for _, b := range fn.Blocks {
			for _, in := range b.Instrs {
				ci, ok := in.(ssa.CallInstruction)
				if !ok {
					continue
				}
				for _, m := range []string{"Wait", "Start", "Run"} {
					if c21IsCallTo(ci, "os/exec", "Cmd", m) {
						nSites++
						c.c21CheckCmdErr(fn, ci, m, keys)
					}
				}
			}
		}
	}
	c.MinCount("R21a", "calls of (*exec.Cmd).Start/Wait/Run in package lang", nSites, 2)

	// ------------------------------------------------------------ R21b External
	c.Rule("R21b", "lang.External: on every path on which execute(p)'s error is non-nil, p.ExitNum is assigned the result of p.SystemProcess.ExitNum() (same p) and that error is returned; execute forwards execFork's error unchanged")
	if fd, _ := c.MustFunc("R21b", "lang", "", "External"); fd != nil {
		c.c21CheckExternal(c.SSAFunc(pk, fd), keys)
	}
	if fd, _ := c.MustFunc("R21b", "lang", "", "execute"); fd != nil {
		c.c21CheckForward(c.SSAFunc(pk, fd), "execFork", keys)
	}

	// ------------------------------------------------------------ R21c status source
	c.Rule("R21c", "the exit number is the waited command's status: in execFork, p.SystemProcess.Set(&sysProcT{cmd}) with the very cmd that is waited for dominates cmd.Wait(); sysProcT.ExitNum returns ProcessState.ExitCode() of its own cmd (or a positive constant under a guard on that value); process.SystemProcess.ExitNum forwards to inheritance.ExitNum() and otherwise returns a positive constant (cmd.Start failed: nothing was run)")
	if fd, _ := c.MustFunc("R21c", "lang", "", "execFork"); fd != nil {
		c.c21CheckSetBeforeWait(c.SSAFunc(pk, fd))
	}
	if fd, _ := c.MustFunc("R21c", "lang", "sysProcT", "ExitNum"); fd != nil {
		c.c21CheckSysProcExitNum(c.SSAFunc(pk, fd))
	}
	if fd, ppk := c.MustFunc("R21c", "lang/process", "SystemProcess", "ExitNum"); fd != nil {
		c.c21CheckSystemProcessExitNum(c.SSAFunc(ppk, fd))
	}

	// ------------------------------------------------------------ R21d executeProcess
	c.Rule("R21d", "lang.executeProcess: the value of `err` tested at the clean-up point is fed (through φ / error re-wrapping only) by the error result of every resolution arm (ParseStatementParameters, castParameters, both fork.Execute calls, the builtin call GoFunctions[name](p), the external call GoFunctions[\"exec\"](p)); on the err != nil edge p.ExitNum is left >= 1: a store of a positive constant guarded by a test that holds for every non-positive… at least for 0 (`== 0`, `< 1`, `<= 0`)")
	if fd, _ := c.MustFunc("R21d", "lang", "", "executeProcess"); fd != nil {
		c.c21CheckExecuteProcessErr(c.SSAFunc(pk, fd))
	}
}

// c21CheckCmdErr: R21a for one call site.
func (c *Ctx) c21CheckCmdErr(fn *ssa.Function, ci ssa.CallInstruction, method string, keys c21KeySet) {
	site := c21FuncName(fn) + ":Cmd." + method
	pos := c.c21Pos(ci)
	errV, _ := c21ErrResult(ci)
	if _, isDefer := ci.(*ssa.Defer); isDefer {
		c.Viol("R21a", site+":deferred", pos, "%s: (*exec.Cmd).%s is deferred, its error cannot reach the caller — a failed command reports exit number 0", c21FuncName(fn), method)
		return
	}
	if _, isGo := ci.(*ssa.Go); isGo {
		c.Viol("R21a", site+":go", pos, "%s: (*exec.Cmd).%s runs in a goroutine, its error cannot reach the caller", c21FuncName(fn), method)
		return
	}
	if errV == nil {
		c.Viol("R21a", site+":ignored", pos, "%s: the error of (*exec.Cmd).%s is discarded — a command that fails (non-zero status, signal) reports exit number 0 and `&&`/`try` carry on", c21FuncName(fn), method)
		return
	}
	procParam := c21ParamOfType(fn, c21ProcessT)
	paths, overflow := c21PathsFrom(ci.(ssa.Instruction), c21PathOpts{Prune: c21PruneNil(errV), Limit: 128})
	if overflow {
		c.Undecided("R21a", site+":paths", pos, "%s: more than 128 paths after (*exec.Cmd).%s — the function is outside the shape this rule can enumerate", c21FuncName(fn), method)
		return
	}
	if len(paths) == 0 {
		c.Undecided("R21a", site+":paths", pos, "%s: no path leaves (*exec.Cmd).%s", c21FuncName(fn), method)
		return
	}
	errIdx := fn.Signature.Results().Len() - 1
	for _, p := range paths {
		facts := p.FactsDesc(errV)
		key := keys.uniq(site + ":path[" + facts + "]")
		if p.Cycle {
			// re-enters a loop: judged at the exit paths of that loop on other paths
			c.Undecided("R21a", key, pos, "%s: a path after (*exec.Cmd).%s loops back before returning (%s) — not a recognised shape", c21FuncName(fn), method, facts)
			continue
		}
		if _, isPanic := p.End.(*ssa.Panic); isPanic {
			c.OK("R21a", key, pos, "path panics (error is not silently dropped)")
			continue
		}
		// exemption: a fact says err.Error() == <unknowable text>
		if why := c21UnknowableFact(p, errV); why != "" {
			c.OK("R21a", key, pos, "exempt path: %s", why)
			continue
		}
		if errIdx >= 0 && c21IsErrorType(fn.Signature.Results().At(errIdx).Type()) {
			switch nn, rv := p.ReturnsNonNil(errIdx, errV); nn {
			case "nonnil":
				// Wait errors that are returned end up in External, which copies
				// ProcessState.ExitCode() — -1 for a signalled child, which `try`
				// (exitNum > 0) reads as success. So a returned Wait error must be
				// known not to be a signal death on that path.
				if method == "Wait" && c21FuncName(fn) == "lang.execFork" && !c21ExcludesSignal(p, errV) {
					c.Viol("R21a", key, pos, "%s: on the path [%s] a failed (*exec.Cmd).Wait is returned as an error without the path excluding death by signal (`signal:` prefix): External then stores ProcessState.ExitCode() = -1 as the exit number, which `try` and `||` inside try treat as success", c21FuncName(fn), facts)
					continue
				}
				c.OK("R21a", key, pos, "error path returns a non-nil error (%s)", c21Desc(rv))
				continue
			case "unknown":
				if ok, how := c21PositiveExitStore(p, procParam); ok {
					c.OK("R21a", key, pos, "error path stores %s into Process.ExitNum", how)
				} else {
					c.Undecided("R21a", key, pos, "%s: on the path [%s] after a failed (*exec.Cmd).%s the returned error %s cannot be classified nil/non-nil", c21FuncName(fn), facts, method, c21Desc(rv))
				}
				continue
			}
		}
		// returns nil (or has no error result): needs a positive ExitNum store
		ok, how := c21PositiveExitStore(p, procParam)
		if ok {
			c.OK("R21a", key, pos, "error path returns nil but stores %s into Process.ExitNum", how)
			continue
		}
		what := "returns a nil error and leaves Process.ExitNum untouched"
		if how != "" {
			// a store exists: a violation only when the value is known not to be
			// positive (constant <= 0, or ProcessState.ExitCode(), which is -1 for
			// a signalled process); anything else is outside the recognised forms
			known := false
			sts := p.Stores(c21ProcessT, "ExitNum")
			v := p.R(sts[len(sts)-1].Val)
			if k, isK := c21ConstInt(v); isK && k <= 0 {
				known = true
			}
			if call, isCall := v.(*ssa.Call); isCall && c21IsCallTo(call, "os", "ProcessState", "ExitCode") {
				known = true
				how += " (ExitCode() is -1 for a process terminated by a signal; `try` tests exitNum > 0)"
			}
			if !known {
				c.Undecided("R21a", key, pos, "%s: when (*exec.Cmd).%s fails with [%s] the function returns nil and stores %s into Process.ExitNum; that this is positive is not derivable from the recognised forms (positive constant, constant + signal number, a murex function returning such)", c21FuncName(fn), method, facts, how)
				continue
			}
			what = "returns a nil error and stores " + how + " into Process.ExitNum, which is not positive"
		}
		c.Viol("R21a", key, pos, "%s: when (*exec.Cmd).%s fails with [%s] the function %s — the command's failure (e.g. death by signal) is reported as exit number 0, so `&&`, `||` and `try` treat it as success", c21FuncName(fn), method, facts, what)
	}
}

// c21ExcludesSignal: the path carries the fact that <err>.Error() does not
// start with (or does not contain) the text "signal:" — the way os/exec's
// ExitError renders death by signal. Resolved through the call targets and the
// constant's value, not through the rendering of the facts.
func c21ExcludesSignal(p *c21Path, errV ssa.Value) bool {
	for _, f := range p.Facts {
		if f.True {
			continue
		}
		call, ok := f.Cond.(*ssa.Call)
		if !ok || !(c21IsCallTo(call, "strings", "", "HasPrefix") || c21IsCallTo(call, "strings", "", "Contains")) {
			continue
		}
		args := call.Common().Args
		if len(args) != 2 {
			continue
		}
		if s, ok := c21ConstString(args[1]); !ok || s != "signal:" {
			continue
		}
		if ec, ok := p.R(args[0]).(*ssa.Call); ok && ec.Common().IsInvoke() && ec.Common().Method.Name() == "Error" && p.R(ec.Common().Value) == p.R(errV) {
			return true
		}
	}
	return false
}

// c21UnknowableFact: the path carries the fact <err>.Error() == <frozen text>.
func c21UnknowableFact(p *c21Path, errV ssa.Value) string {
	for _, f := range p.Facts {
		b, ok := f.Cond.(*ssa.BinOp)
		if !ok || (b.Op != token.EQL && b.Op != token.NEQ) {
			continue
		}
		if (b.Op == token.EQL) != f.True {
			continue
		}
		for _, pair := range [][2]ssa.Value{{b.X, b.Y}, {b.Y, b.X}} {
			s, ok := c21ConstString(pair[1])
			if !ok {
				continue
			}
			why, frozen := c21Unknowable[s]
			if !frozen {
				continue
			}
			if call, ok := pair[0].(*ssa.Call); ok && call.Common().IsInvoke() && call.Common().Method.Name() == "Error" && p.R(call.Common().Value) == p.R(errV) {
				return why
			}
		}
	}
	return ""
}

// c21PositiveExitStore: the path stores a provably positive value into
// proc.ExitNum. how describes the stored value ("" when there is no store).
func c21PositiveExitStore(p *c21Path, proc *ssa.Parameter) (bool, string) {
	sts := p.Stores(c21ProcessT, "ExitNum")
	if len(sts) == 0 {
		return false, ""
	}
	last := sts[len(sts)-1]
	base, _, _, _ := c21Field(last.Addr)
	if proc == nil || p.R(base) != ssa.Value(proc) {
		return false, c21Desc(last.Val) + " (into a different process)"
	}
	v := p.R(last.Val)
	return c21Positive(v, 0), c21Desc(v)
}

// c21CheckExternal: R21b.
func (c *Ctx) c21CheckExternal(fn *ssa.Function, keys c21KeySet) {
	if fn == nil {
		c.Lost("R21b", "ssa:External", "no SSA for lang.External")
		return
	}
	proc := c21ParamOfType(fn, c21ProcessT)
	var site ssa.CallInstruction
	for _, b := range fn.Blocks {
		for _, in := range b.Instrs {
			if ci, ok := in.(ssa.CallInstruction); ok && c21IsCallTo(ci, mx("lang"), "", "execute") {
				site = ci
			}
		}
	}
	if site == nil || proc == nil {
		c.Lost("R21b", "External:execute", "lang.External no longer calls lang.execute(p) — anchor moved")
		return
	}
	pos := c.c21Pos(site)
	if args := c21CallArgs(site); len(args) != 1 || c21Origin(args[0]) != ssa.Value(proc) {
		c.Viol("R21b", "External:execute:arg", pos, "External runs execute on a process other than its own parameter")
	}
	errV, _ := c21ErrResult(site)
	if errV == nil {
		c.Viol("R21b", "External:execute:ignored", pos, "External discards execute's error — failed external commands report exit number 0")
		return
	}
	paths, overflow := c21PathsFrom(site.(ssa.Instruction), c21PathOpts{Prune: c21PruneNil(errV), Limit: 64})
	if overflow || len(paths) == 0 {
		c.Undecided("R21b", "External:paths", pos, "cannot enumerate the error paths of External")
		return
	}
	for _, p := range paths {
		key := keys.uniq("External:errpath[" + p.FactsDesc(errV) + "]")
		nn, rv := p.ReturnsNonNil(0, errV)
		copied := false
		detail := "no store into p.ExitNum"
		for _, st := range p.Stores(c21ProcessT, "ExitNum") {
			base, _, _, _ := c21Field(st.Addr)
			if p.R(base) != ssa.Value(proc) {
				continue
			}
			detail = "p.ExitNum = " + c21Desc(st.Val)
			call, ok := p.R(st.Val).(*ssa.Call)
			if !ok || !c21IsCallTo(call, mx("lang/process"), "SystemProcess", "ExitNum") {
				continue
			}
			// receiver: load of p.SystemProcess
			recv := c21CallArgs(call)[0]
			if addr, ok := c21Load(recv); ok {
				if b, ow, f, ok := c21Field(addr); ok && ow == c21ProcessT && f == "SystemProcess" && p.R(b) == ssa.Value(proc) {
					copied = true
				}
			}
		}
		// equivalent form: `if !p.SystemProcess.External() { p.ExitNum = <positive constant> }`
		// (nothing was started: that is what SystemProcess.ExitNum's fall-back returns)
		if !copied {
			noSysProc := false
			for _, f := range p.Facts {
				if call, ok := f.Cond.(*ssa.Call); ok && !f.True && c21IsCallTo(call, mx("lang/process"), "SystemProcess", "External") {
					noSysProc = true
				}
			}
			if ok, _ := c21PositiveExitStore(p, proc); ok && noSysProc {
				copied = true
				detail += " under !p.SystemProcess.External()"
			}
		}
		switch {
		case !copied:
			c.Viol("R21b", key, pos, "External: on the error path [%s] the exit number is not taken from p.SystemProcess.ExitNum() (%s) — the external command's status (exit 3 → 3) is lost", p.FactsDesc(errV), detail)
		case nn != "nonnil":
			c.Viol("R21b", key, pos, "External: on the error path the function returns %s instead of the error — executeProcess would not see the failure", c21Desc(rv))
		default:
			c.OK("R21b", key, pos, "%s; returns the error", detail)
		}
	}
}

// c21CheckForward: fn returns, as its error, the error of its call to lang.<callee>
// on every path that reaches that call.
func (c *Ctx) c21CheckForward(fn *ssa.Function, calleeName string, keys c21KeySet) {
	if fn == nil {
		c.Lost("R21b", "ssa:execute", "no SSA for lang.execute")
		return
	}
	n := 0
	for _, b := range fn.Blocks {
		for _, in := range b.Instrs {
			ci, ok := in.(ssa.CallInstruction)
			if !ok || !c21IsCallTo(ci, mx("lang"), "", calleeName) {
				continue
			}
			n++
			key := keys.uniq(c21FuncName(fn) + ":forwards:" + calleeName)
			errV, _ := c21ErrResult(ci)
			if errV == nil {
				c.Viol("R21b", key, c.c21Pos(ci), "%s discards the error of %s", c21FuncName(fn), calleeName)
				continue
			}
			paths, _ := c21PathsFrom(ci.(ssa.Instruction), c21PathOpts{Prune: c21PruneNil(errV), Limit: 32})
			good := len(paths) > 0
			for _, p := range paths {
				if nn, _ := p.ReturnsNonNil(fn.Signature.Results().Len()-1, errV); nn != "nonnil" {
					good = false
				}
			}
			c.Check(good, "R21b", key, c.c21Pos(ci), "%s returns the error of %s on every path where it is non-nil", c21FuncName(fn), calleeName)
		}
	}
	if n == 0 {
		c.Lost("R21b", c21FuncName(fn)+":forwards:"+calleeName, "%s no longer calls %s — anchor moved", c21FuncName(fn), calleeName)
	}
}

// c21CheckSetBeforeWait: R21c part 1.
func (c *Ctx) c21CheckSetBeforeWait(fn *ssa.Function) {
	c21Dump(fn)
	if fn == nil {
		c.Lost("R21c", "ssa:execFork", "no SSA for lang.execFork")
		return
	}
	proc := c21ParamOfType(fn, c21ProcessT)
	type setSite struct {
		ci  ssa.CallInstruction
		cmd ssa.Value
	}
	var sets []setSite
	var waits []ssa.CallInstruction
	for _, b := range fn.Blocks {
		for _, in := range b.Instrs {
			ci, ok := in.(ssa.CallInstruction)
			if !ok {
				continue
			}
			if c21IsCallTo(ci, "os/exec", "Cmd", "Wait") {
				waits = append(waits, ci)
			}
			if c21IsCallTo(ci, mx("lang/process"), "SystemProcess", "Set") {
				args := c21CallArgs(ci)
				if len(args) != 2 {
					continue
				}
				// receiver must be p.SystemProcess
				okRecv := false
				if addr, ok := c21Load(args[0]); ok {
					if bse, ow, f, ok := c21Field(addr); ok && ow == c21ProcessT && f == "SystemProcess" && c21Origin(bse) == ssa.Value(proc) {
						okRecv = true
					}
				}
				if !okRecv {
					continue
				}
				// argument: MakeInterface(Alloc sysProcT) with a store of cmd into field cmd
				var cmdV ssa.Value
				if mi, ok := args[1].(*ssa.MakeInterface); ok {
					if al, ok := mi.X.(*ssa.Alloc); ok && namedPath(al.Type()) == mx("lang")+".sysProcT" {
						for _, r := range *al.Referrers() {
							fa, ok := r.(*ssa.FieldAddr)
							if !ok {
								continue
							}
							for _, rr := range *fa.Referrers() {
								if st, ok := rr.(*ssa.Store); ok && st.Addr == ssa.Value(fa) {
									cmdV = st.Val
								}
							}
						}
					}
				}
				sets = append(sets, setSite{ci, cmdV})
			}
		}
	}
	if len(waits) == 0 {
		c.Lost("R21c", "execFork:Wait", "execFork no longer calls (*exec.Cmd).Wait — anchor moved")
		return
	}
	for i, w := range waits {
		key := "execFork:Set-dominates-Wait"
		if i > 0 {
			key += fmt.Sprintf("#%d", i+1)
		}
		cmd := c21CallArgs(w)[0]
		ok := false
		why := "no p.SystemProcess.Set(&sysProcT{…}) call found"
		for _, s := range sets {
			sb, wb := s.ci.(ssa.Instruction).Block(), w.(ssa.Instruction).Block()
			dom := sb != wb && sb.Dominates(wb)
			if sb == wb {
				for _, in := range sb.Instrs {
					if in == s.ci.(ssa.Instruction) {
						dom = true
						break
					}
					if in == w.(ssa.Instruction) {
						break
					}
				}
			}
			switch {
			case s.cmd == nil:
				why = "Set is called with something other than &sysProcT{cmd}"
			case c21Origin(s.cmd) != c21Origin(cmd):
				why = "Set registers a different *exec.Cmd than the one that is waited for"
			case !dom:
				why = "Set does not dominate Wait (some path waits without the process being registered)"
			default:
				ok = true
			}
		}
		c.Check(ok, "R21c", key, c.c21Pos(w), "execFork: p.SystemProcess.Set(&sysProcT{cmd}) with the waited-for cmd dominates cmd.Wait() [%s] — otherwise External reads the fall-back exit number 1 instead of the command's status", map[bool]string{true: "ok", false: why}[ok])
	}
}

// c21CheckSysProcExitNum: sysProcT.ExitNum returns ProcessState.ExitCode() of its own cmd.
func (c *Ctx) c21CheckSysProcExitNum(fn *ssa.Function) {
	if fn == nil {
		c.Lost("R21c", "ssa:sysProcT.ExitNum", "no SSA for sysProcT.ExitNum")
		return
	}
	recv := fn.Params[0]
	isOwnExitCode := func(v ssa.Value) bool {
		call, ok := v.(*ssa.Call)
		if !ok || !c21IsCallTo(call, "os", "ProcessState", "ExitCode") {
			return false
		}
		// receiver: *( &(*(&recv.cmd)).ProcessState )
		a, ok := c21Load(c21CallArgs(call)[0])
		if !ok {
			return false
		}
		b, ow, f, ok := c21Field(a)
		if !ok || ow != "os/exec.Cmd" || f != "ProcessState" {
			return false
		}
		a2, ok := c21Load(b)
		if !ok {
			return false
		}
		b2, _, f2, ok := c21Field(a2)
		return ok && f2 == "cmd" && c21Origin(b2) == ssa.Value(recv)
	}
	nRet, nCode := 0, 0
	rets, vals := c21RetVals(fn, 0)
	for i, r := range rets {
		nRet++
		key := "sysProcT.ExitNum:return"
		if nRet > 1 {
			key += fmt.Sprintf("#%d", nRet)
		}
		good := true
		for _, e := range vals[i] {
			switch {
			case isOwnExitCode(e):
				nCode++
			case c21Positive(e, 0):
			default:
				good = false
			}
		}
		c.Check(good, "R21c", key, c.c21Pos(r), "sysProcT.ExitNum returns its own cmd.ProcessState.ExitCode() or a positive number (returns %s) — anything else detaches the exit number from the command's status", c21Desc(r.Results[0]))
	}
	c.Check(nCode > 0, "R21c", "sysProcT.ExitNum:source", fn.Pos(), "sysProcT.ExitNum reads (*os.ProcessState).ExitCode() of its own command")
}

// c21CheckSystemProcessExitNum: forwards to inheritance.ExitNum(), else positive constant.
func (c *Ctx) c21CheckSystemProcessExitNum(fn *ssa.Function) {
	c21Dump(fn)
	if fn == nil {
		c.Lost("R21c", "ssa:SystemProcess.ExitNum", "no SSA for process.SystemProcess.ExitNum")
		return
	}
	recv := fn.Params[0]
	nFwd, nRet := 0, 0
	rets, allVals := c21RetVals(fn, 0)
	for ri, r := range rets {
		vals := allVals[ri]
		for _, v := range vals {
			nRet++
			if call, ok := v.(*ssa.Call); ok && call.Common().IsInvoke() && call.Common().Method.Name() == "ExitNum" {
				if a, ok := c21Load(call.Common().Value); ok {
					if bse, ow, f, ok := c21Field(a); ok && ow == c21SysProcT && f == "inheritance" && c21Origin(bse) == ssa.Value(recv) {
						nFwd++
						// must be guarded by inheritance != nil
						guarded := c21GuardedBy(call.Block(), func(cond ssa.Value, truth bool) bool {
							bo, ok := cond.(*ssa.BinOp)
							if !ok || (bo.Op != token.NEQ && bo.Op != token.EQL) {
								return false
							}
							var other ssa.Value
							if c21IsNilConst(bo.Y) {
								other = bo.X
							} else if c21IsNilConst(bo.X) {
								other = bo.Y
							} else {
								return false
							}
							la, ok := c21Load(other)
							if !ok {
								return false
							}
							_, ow2, f2, ok := c21Field(la)
							return ok && ow2 == c21SysProcT && f2 == "inheritance" && (bo.Op == token.NEQ) == truth
						})
						c.Check(guarded, "R21c", "SystemProcess.ExitNum:forward", c.c21Pos(call), "SystemProcess.ExitNum forwards to inheritance.ExitNum() under inheritance != nil")
						continue
					}
				}
			}
			c.Check(c21Positive(v, 0), "R21c", "SystemProcess.ExitNum:fallback", c.c21Pos(r), "SystemProcess.ExitNum's fall-back value (no system process: cmd.Start failed) is %s; it must be a positive constant — External copies it into p.ExitNum, and 0/-1 would make a command that could not be started look successful to `try`", c21Desc(v))
		}
	}
	c.Check(nFwd == 1, "R21c", "SystemProcess.ExitNum:source", fn.Pos(), "SystemProcess.ExitNum forwards to the registered system process (%d forwarding returns of %d)", nFwd, nRet)
}

// c21CheckExecuteProcessErr: R21d.
func (c *Ctx) c21CheckExecuteProcessErr(fn *ssa.Function) {
	if fn == nil {
		c.Lost("R21d", "ssa:executeProcess", "no SSA for lang.executeProcess")
		return
	}
	proc := c21ParamOfType(fn, c21ProcessT)
	// 1. find the store p.ExitNum = <positive const>
	var stores []*ssa.Store
	for _, b := range fn.Blocks {
		for _, in := range b.Instrs {
			st, ok := in.(*ssa.Store)
			if !ok {
				continue
			}
			if bse, ow, f, ok := c21Field(st.Addr); ok && ow == c21ProcessT && f == "ExitNum" && c21Origin(bse) == ssa.Value(proc) {
				if _, isConst := st.Val.(*ssa.Const); isConst {
					stores = append(stores, st)
				}
			}
		}
	}
	if len(stores) == 0 {
		c.Viol("R21d", "executeProcess:exitnum-on-error", fn.Pos(), "executeProcess never stores a constant into p.ExitNum — a command that returns an error keeps exit number 0")
		return
	}
	var errTest ssa.Value // the error value compared with nil that guards the store
	nGood := 0
	for i, st := range stores {
		key := "executeProcess:exitnum-on-error"
		if i > 0 {
			key += fmt.Sprintf("#%d", i+1)
		}
		k, _ := c21ConstInt(st.Val)
		// guards: (a) some error value != nil, (b) a predicate on p.ExitNum
		var ev ssa.Value
		errGuard := c21GuardedBy(st.Block(), func(cond ssa.Value, truth bool) bool {
			bo, ok := cond.(*ssa.BinOp)
			if !ok || (bo.Op != token.NEQ && bo.Op != token.EQL) {
				return false
			}
			var other ssa.Value
			if c21IsNilConst(bo.Y) {
				other = bo.X
			} else if c21IsNilConst(bo.X) {
				other = bo.Y
			} else {
				return false
			}
			if !c21IsErrorType(other.Type()) || (bo.Op == token.NEQ) != truth {
				return false
			}
			ev = other
			return true
		})
		var pred func(int64) bool
		var predDesc string
		exitGuard := c21GuardedBy(st.Block(), func(cond ssa.Value, truth bool) bool {
			bo, ok := cond.(*ssa.BinOp)
			if !ok {
				return false
			}
			x, y, op := bo.X, bo.Y, bo.Op
			kk, isK := c21ConstInt(y)
			if !isK {
				kk, isK = c21ConstInt(x)
				x = y
				flip := map[token.Token]token.Token{token.LSS: token.GTR, token.GTR: token.LSS, token.LEQ: token.GEQ, token.GEQ: token.LEQ, token.EQL: token.EQL, token.NEQ: token.NEQ}
				op = flip[op]
			}
			if !isK {
				return false
			}
			a, ok := c21Load(x)
			if !ok {
				return false
			}
			bse, ow, f, ok := c21Field(a)
			if !ok || ow != c21ProcessT || f != "ExitNum" || c21Origin(bse) != ssa.Value(proc) {
				return false
			}
			ip := intPred(op, kk)
			pred = func(v int64) bool { return ip(v) == truth }
			predDesc = fmt.Sprintf("p.ExitNum %s %d is %v", op, kk, truth)
			return true
		})
		if !errGuard {
			// a constant store that is not on an error edge is some other protocol
			continue
		}
		nGood++
		errTest = ev
		switch {
		case k <= 0:
			c.Viol("R21d", key, c.c21Pos(st), "executeProcess: on err != nil the exit number is set to %d — a failed command must get a positive exit number", k)
		case !exitGuard:
			// unconditional positive store on the error edge: fine
			c.OK("R21d", key, c.c21Pos(st), "on err != nil p.ExitNum = %d unconditionally", k)
		default:
			// after `if G(x) { x = k }`: x > 0 must hold for every x >= 0 (negative
			// exit numbers are not produced by the external path once R21a/R21c hold)
			good := true
			for x := int64(0); x <= 4; x++ {
				if !pred(x) && !(x > 0) {
					good = false
				}
			}
			c.Check(good, "R21d", key, c.c21Pos(st), "executeProcess: on err != nil, `if %s { p.ExitNum = %d }` leaves a positive exit number for every non-negative prior value", predDesc, k)
		}
	}
	if nGood == 0 {
		c.Viol("R21d", "executeProcess:exitnum-on-error", fn.Pos(), "executeProcess: no store of a constant into p.ExitNum is guarded by err != nil — a command that returns an error keeps exit number 0")
		return
	}
	// 2. the tested error value must be fed by every arm
	feeds := map[ssa.Value]bool{}
	var closure func(v ssa.Value, depth int)
	closure = func(v ssa.Value, depth int) {
		if v == nil || feeds[v] || depth > 12 {
			return
		}
		feeds[v] = true
		switch x := v.(type) {
		case *ssa.Phi:
			for _, e := range x.Edges {
				closure(e, depth+1)
			}
		case *ssa.Call:
			// error re-wrapping: fmt.Errorf(..., indentError(err)) — follow error-typed arguments
			if fn := x.Common().StaticCallee(); fn != nil && fn.Pkg != nil && (fn.Pkg.Pkg.Path() == "fmt" || fn.Name() == "indentError") {
				for _, a := range x.Common().Args {
					closure(a, depth+1)
				}
			}
		case *ssa.MakeInterface:
			closure(x.X, depth+1)
		case *ssa.Slice:
			closure(x.X, depth+1)
		case *ssa.Alloc:
			// varargs array: follow stores into it
			for _, r := range *x.Referrers() {
				if ia, ok := r.(*ssa.IndexAddr); ok {
					for _, rr := range *ia.Referrers() {
						if st, ok := rr.(*ssa.Store); ok {
							closure(st.Val, depth+1)
						}
					}
				}
			}
		}
	}
	closure(errTest, 0)
	type arm struct {
		key  string
		want int
		is   func(ci ssa.CallInstruction) bool
	}
	isDynOnGoFunctions := func(constKey bool) func(ci ssa.CallInstruction) bool {
		return func(ci ssa.CallInstruction) bool {
			cc := ci.Common()
			if cc.IsInvoke() || cc.StaticCallee() != nil {
				return false
			}
			lk, ok := cc.Value.(*ssa.Lookup)
			if !ok {
				return false
			}
			ld, ok := c21Load(lk.X)
			if !ok {
				return false
			}
			g, ok := ld.(*ssa.Global)
			if !ok || g.Name() != "GoFunctions" {
				return false
			}
			s, isC := c21ConstString(lk.Index)
			if constKey {
				return isC && s == "exec"
			}
			return !isC
		}
	}
	arms := []arm{
		{"ParseStatementParameters", 1, func(ci ssa.CallInstruction) bool {
			return c21IsGlobalFuncCall(ci, mx("lang"), "ParseStatementParameters")
		}},
		{"castParameters", 1, func(ci ssa.CallInstruction) bool {
			return c21IsCallTo(ci, mx("lang"), "murexFuncDetails", "castParameters")
		}},
		{"Fork.Execute", 2, func(ci ssa.CallInstruction) bool { return c21IsCallTo(ci, mx("lang"), "Fork", "Execute") }},
		{"GoFunctions[name]", 1, isDynOnGoFunctions(false)},
		{"GoFunctions[\"exec\"]", 1, isDynOnGoFunctions(true)},
	}
	for _, a := range arms {
		n := 0
		for _, b := range fn.Blocks {
			for _, in := range b.Instrs {
				ci, ok := in.(ssa.CallInstruction)
				if !ok || !a.is(ci) {
					continue
				}
				if _, isCall := ci.(*ssa.Call); !isCall {
					continue
				}
				n++
				key := "executeProcess:err-feeds-exitnum:" + a.key
				if n > 1 {
					key += fmt.Sprintf("#%d", n)
				}
				ev, _ := c21ErrResult(ci)
				c.Check(ev != nil && feeds[ev], "R21d", key, c.c21Pos(ci), "executeProcess: the error of %s reaches the `err != nil ⇒ ExitNum >= 1` test at the clean-up point (dropped or overwritten errors leave exit number 0 for a failed command)", a.key)
			}
		}
		c.MinCount("R21d", "calls of "+a.key+" in executeProcess", n, a.want)
	}
	// 3. every path from each arm to destroyProcess passes the test: the test block dominates the final destroyProcess call
	var testBlock *ssa.BasicBlock
	if refs := errTest.Referrers(); refs != nil {
		for _, r := range *refs {
			if bo, ok := r.(*ssa.BinOp); ok && (c21IsNilConst(bo.X) || c21IsNilConst(bo.Y)) {
				if brefs := bo.Referrers(); brefs != nil {
					for _, rr := range *brefs {
						if iff, ok := rr.(*ssa.If); ok {
							testBlock = iff.Block()
						}
					}
				}
			}
		}
	}
	for _, a := range arms {
		for _, b := range fn.Blocks {
			for _, in := range b.Instrs {
				ci, ok := in.(*ssa.Call)
				if !ok || !a.is(ci) || testBlock == nil {
					continue
				}
				// no return is reachable from the arm without passing the test block
				escapes := false
				for _, rb := range fn.Blocks {
					if _, isRet := rb.Instrs[len(rb.Instrs)-1].(*ssa.Return); isRet && rb != testBlock {
						if c21Reaches(b, rb, testBlock) && b != testBlock {
							escapes = true
						}
					}
				}
				if escapes {
					c.Viol("R21d", "executeProcess:arm-bypasses-test:"+a.key, c.c21Pos(ci), "executeProcess: after %s a path returns without passing the `err != nil` clean-up test", a.key)
				}
			}
		}
	}
}
