package main

// Shared analysis of utils/parser.Parse (the tokenizer behind syntax
// highlighting, hints and autocompletion) used by C34, C37 and C20 (R20b).
//
// The function is one `for ; i < len(block); i++` loop around a prelude
// (comment / variable handling) and a `switch block[i]` whose clauses are
// tagless switches over the tokenizer state. The analysis enumerates every
// path through ONE iteration of that loop body (if / else, tagged and tagless
// switch arms with `fallthrough`, each alternative of a `case a, b:` list,
// calls of the local closures inlined with their arguments bound) and records
// per path a summary:
//
//   - the decisions taken (expression, truth) with the facts they imply:
//     known source runes (`case '|'`, `next('>')`, `block[i-1] == '-'`),
//     bounds on the loop index (`i > 0`, `i+1 < len(block)`), `pos != 0`;
//   - the source runes consumed (1 + number of `i++`);
//   - what is appended to the highlighted output, as a sequence of parts:
//     source rune block[i0+k], source slice, literal text, colour (a constant
//     that is a complete ANSI SGR sequence, or an element of a colour-only
//     slice), or unknown; byte truncations of the output;
//   - the stores to the tokenizer state (pt.* fields, locals, *pt.pop);
//   - every index / slice expression with the verdict of the bounds facts
//     that hold where it is evaluated (short-circuit aware).
//
// Nothing of murex is executed: the walker works on the type-checked AST,
// every identifier is resolved through go/types (closures, parameters, struct
// fields, package-level colour variables), and any statement or expression
// outside the recognised forms is recorded as a problem, which every consumer
// reports as UNDECIDED.

import (
	"fmt"
	"go/ast"
	"go/constant"
	"go/token"
	"go/types"
	"regexp"
	"sort"
	"strconv"
	"strings"

	"golang.org/x/tools/go/packages"
)

const c34ParserPkg = "utils/parser"

const (
	c34Src = iota // one source rune block[i0+Off]
	c34Slice      // N source runes from block[i0+Off]
	c34Rest       // block[i0+Off:]
	c34Lit        // literal text
	c34Colour     // not text: complete ANSI SGR sequence(s)
	c34Unknown
)

type c34Part struct {
	Kind   int
	Off, N int
	Lit    string
	Desc   string
}

func (p c34Part) String() string {
	switch p.Kind {
	case c34Src:
		return fmt.Sprintf("src[%+d]", p.Off)
	case c34Slice:
		return fmt.Sprintf("src[%+d:%+d]", p.Off, p.Off+p.N)
	case c34Rest:
		return fmt.Sprintf("src[%+d:]", p.Off)
	case c34Lit:
		return strconv.Quote(p.Lit)
	case c34Colour:
		return "colour(" + p.Desc + ")"
	}
	return "?(" + p.Desc + ")"
}

const (
	c34EvEmit = iota
	c34EvTrunc
	c34EvStore
	c34EvInc
	c34EvIdxBad
	c34EvIndex
)

type c34Store struct {
	Target string       // "pt.Unsafe", "*pt.pop", "readFunc", …
	Obj    types.Object // field or local variable (nil for *pt.pop)
	ViaPop bool
	Op     token.Token
	Rhs    ast.Expr
	Class  string // "true" "false" "&FuncName" "&Parameters" "fold" "str:…" "int:…" "other"
}

type c34Index struct {
	Expr ast.Expr
	On   string // rendered operand ("block", "reset", "hlBlock", "pt.Parameters")
	Obj  types.Object
	Safe bool
	Why  string
	Text string
}

type c34Event struct {
	Kind  int
	Pos   token.Pos
	Off   int
	Parts []c34Part
	Trunc int
	Store *c34Store
	Index *c34Index
	Note  string
}

type c34Dec struct {
	E     ast.Expr
	Truth bool
	Off   int
	Seq   int // number of events recorded before the decision
	Text  string
}

type c34Path struct {
	CaseKey   string
	CaseRunes []rune
	CaseDflt  bool
	ArmKey    string
	Sub       []string
	Pre       []string
	Decs      []c34Dec
	Events    []c34Event
	Known     map[int][]rune
	Excl      map[int][]rune
	Inc       int
	Exit      string // "end" "continue" "return"
	PosNZ     bool
	Pos       token.Pos // position of the arm (for reports)
}

func (p *c34Path) Key() string {
	if p.CaseKey == "" {
		k := "prelude"
		if len(p.Pre) > 0 {
			k += ":" + strings.Join(p.Pre, ":")
		}
		return k
	}
	k := p.CaseKey + ":" + p.ArmKey
	if len(p.Sub) > 0 {
		k += ":" + strings.Join(p.Sub, ":")
	}
	return k
}

type c34Problem struct {
	Pos  token.Pos
	What string
}

type c34Parser struct {
	c        *Ctx
	pk       *packages.Package
	info     *types.Info
	fd       *ast.FuncDecl
	block    types.Object
	posP     types.Object
	pt       types.Object
	out      types.Object
	idx      types.Object
	loop     *ast.ForStmt
	outer    *ast.SwitchStmt
	closures map[types.Object]*ast.FuncLit
	paths    []*c34Path
	pro, epi []*c34Path
	problems []c34Problem
	probSeen map[string]bool
	inertMemo map[ast.Node]bool
	colourVar map[types.Object]int // 0 unknown 1 colour 2 not
	nPaths   int
	idxInitOK bool
	pendingVar types.Object // the one function-level bool local (name-pending flag), nil if not unique
}

var c34Cache = map[*Ctx]*c34Parser{}

var c34RxSGR = regexp.MustCompile("^(\x1b\\[[0-9;]*m)+$")

func (p *c34Parser) problem(pos token.Pos, f string, a ...any) {
	msg := fmt.Sprintf(f, a...)
	if p.probSeen[msg] {
		return
	}
	p.probSeen[msg] = true
	p.problems = append(p.problems, c34Problem{pos, msg})
}

// reportProblems turns every construct the walker could not model into an
// UNDECIDED obligation of the calling rule.
func (p *c34Parser) reportProblems(rule string) {
	for i, pr := range p.problems {
		p.c.Undecided(rule, fmt.Sprintf("parse-model:%d", i), pr.Pos, "parser.Parse: %s — outside the recognised statement forms of the tokenizer loop, the per-path summaries are incomplete", pr.What)
	}
}

// c34ParseModel loads utils/parser (once per run) and summarises parser.Parse.
func (c *Ctx) c34ParseModel(rule string) *c34Parser {
	if p, ok := c34Cache[c]; ok {
		return p
	}
	if c.Pkg(c34ParserPkg) == nil {
		c.Load(c34ParserPkg)
	}
	fd, pk := c.MustFunc(rule, c34ParserPkg, "", "Parse")
	if fd == nil {
		c34Cache[c] = nil
		return nil
	}
	p := &c34Parser{c: c, pk: pk, info: pk.TypesInfo, fd: fd, closures: map[types.Object]*ast.FuncLit{},
		probSeen: map[string]bool{}, inertMemo: map[ast.Node]bool{}, colourVar: map[types.Object]int{}}
	c34Cache[c] = p
	info := p.info
	// parameters: ([]rune, int); named results: (ParsedTokens, string)
	for _, f := range fd.Type.Params.List {
		for _, n := range f.Names {
			o := info.Defs[n]
			switch t := o.Type().Underlying().(type) {
			case *types.Slice:
				if b, ok := t.Elem().Underlying().(*types.Basic); ok && b.Kind() == types.Int32 {
					p.block = o
				}
			case *types.Basic:
				if t.Kind() == types.Int {
					p.posP = o
				}
			}
		}
	}
	if fd.Type.Results != nil {
		for _, f := range fd.Type.Results.List {
			for _, n := range f.Names {
				o := info.Defs[n]
				if namedPath(o.Type()) == mx(c34ParserPkg)+".ParsedTokens" {
					p.pt = o
				} else if b, ok := o.Type().Underlying().(*types.Basic); ok && b.Kind() == types.String {
					p.out = o
				}
			}
		}
	}
	if p.block == nil || p.posP == nil || p.pt == nil || p.out == nil {
		c.Lost(rule, "func:utils/parser.Parse:signature", "parser.Parse is no longer func(block []rune, pos int) (pt ParsedTokens, highlighted string) with named results — the tokenizer model cannot be built")
		c34Cache[c] = nil
		return nil
	}
	// top-level statements: closures, the loop, prologue / epilogue
	var pro, epi []ast.Stmt
	for _, s := range fd.Body.List {
		if as, ok := s.(*ast.AssignStmt); ok && as.Tok == token.DEFINE && len(as.Lhs) == 1 && len(as.Rhs) == 1 {
			if fl, ok := as.Rhs[0].(*ast.FuncLit); ok {
				p.closures[info.Defs[as.Lhs[0].(*ast.Ident)]] = fl
				continue
			}
		}
		if fs, ok := s.(*ast.ForStmt); ok {
			if p.loop != nil {
				p.problem(s.Pos(), "second top-level loop")
				continue
			}
			p.loop = fs
			continue
		}
		if p.loop == nil {
			pro = append(pro, s)
		} else {
			epi = append(epi, s)
		}
	}
	if p.loop == nil {
		c.Lost(rule, "func:utils/parser.Parse:loop", "parser.Parse has no top-level for loop over the input runes")
		c34Cache[c] = nil
		return nil
	}
	// loop shape: cond `i < len(block)`, post `i++`
	if inc, ok := p.loop.Post.(*ast.IncDecStmt); ok {
		if id, ok := unparen(inc.X).(*ast.Ident); ok {
			p.idx = info.ObjectOf(id)
		}
	}
	if be, ok := unparen(p.loop.Cond).(*ast.BinaryExpr); ok && p.idx == nil {
		if id, ok := unparen(be.X).(*ast.Ident); ok {
			p.idx = info.ObjectOf(id)
		}
	}
	if p.idx != nil && (p.loop.Cond == nil || !p.mentionsObj(p.loop.Cond, p.idx)) {
		p.idx = nil
	}
	if p.idx == nil {
		c.Lost(rule, "func:utils/parser.Parse:loop-index", "the tokenizer loop is not `for ; <index> < len(block); <index>++`")
		c34Cache[c] = nil
		return nil
	}
	// index initial value: zero value or a non-negative constant
	p.idxInitOK = false
	ast.Inspect(fd.Body, func(n ast.Node) bool {
		switch v := n.(type) {
		case *ast.ValueSpec:
			for k, nm := range v.Names {
				if info.Defs[nm] == p.idx {
					if len(v.Values) == 0 {
						p.idxInitOK = true
					} else if x, ok := constInt(info, v.Values[k]); ok && x >= 0 {
						p.idxInitOK = true
					}
				}
			}
		case *ast.AssignStmt:
			if v.Tok == token.DEFINE {
				for k, l := range v.Lhs {
					if id, ok := l.(*ast.Ident); ok && info.Defs[id] == p.idx && k < len(v.Rhs) {
						if x, ok := constInt(info, v.Rhs[k]); ok && x >= 0 {
							p.idxInitOK = true
						}
					}
				}
			}
		}
		return true
	})
	if p.loop.Init != nil {
		p.problem(p.loop.Init.Pos(), "loop init statement %s", c.src(p.loop.Init))
	}

	// the function-level bool local(s)
	var boolLocals []types.Object
	for _, st := range fd.Body.List {
		switch v := st.(type) {
		case *ast.DeclStmt:
			if gd, ok := v.Decl.(*ast.GenDecl); ok {
				for _, sp := range gd.Specs {
					if vs, ok := sp.(*ast.ValueSpec); ok {
						for _, nm := range vs.Names {
							if o := info.Defs[nm]; o != nil {
								if b, ok := o.Type().Underlying().(*types.Basic); ok && b.Kind() == types.Bool {
									boolLocals = append(boolLocals, o)
								}
							}
						}
					}
				}
			}
		case *ast.AssignStmt:
			if v.Tok == token.DEFINE {
				for _, l := range v.Lhs {
					if id, ok := l.(*ast.Ident); ok {
						if o := info.Defs[id]; o != nil {
							if b, ok := o.Type().Underlying().(*types.Basic); ok && b.Kind() == types.Bool {
								boolLocals = append(boolLocals, o)
							}
						}
					}
				}
			}
		}
	}
	if len(boolLocals) == 1 {
		p.pendingVar = boolLocals[0]
	}

	// prologue / epilogue
	run := func(list []ast.Stmt, dst *[]*c34Path) {
		s := p.newState()
		s.ub = -1 // no `i < len(block)` fact outside the loop
		fin := func(kind string) func(*c34St) {
			return func(s *c34St) { *dst = append(*dst, p.mkPath(s, kind)) }
		}
		p.walk(list, s, c34Ctl{next: fin("end"), ret: fin("return"), cont: fin("continue"), brk: fin("break")})
	}
	run(pro, &p.pro)
	run(epi, &p.epi)

	// the loop body
	s := p.newState()
	p.scanExpr(p.loop.Cond, s, nil)
	p.assume(p.loop.Cond, true, s)
	fin := func(kind string) func(*c34St) {
		return func(s *c34St) {
			p.nPaths++
			p.paths = append(p.paths, p.mkPath(s, kind))
		}
	}
	p.walk(p.loop.Body.List, s, c34Ctl{next: fin("end"), ret: fin("return"), cont: fin("continue"),
		brk: func(s *c34St) {
			p.problem(p.loop.Pos(), "break out of the tokenizer loop")
			fin("return")(s)
		}})
	if inc, ok := p.loop.Post.(*ast.IncDecStmt); !ok || inc.Tok != token.INC || info.ObjectOf(identOf(inc.X)) != p.idx {
		p.problem(p.loop.Pos(), "loop post statement is not `%s++`", p.idx.Name())
	}
	return p
}

func identOf(e ast.Expr) *ast.Ident {
	id, _ := unparen(e).(*ast.Ident)
	if id == nil {
		return &ast.Ident{Name: "_"}
	}
	return id
}

// ---------------------------------------------------------------- state

type c34St struct {
	off     int
	decs    []c34Dec
	evs     []c34Event
	known   map[int][]rune
	excl    map[int][]rune
	ub, lb  int
	caseKey string
	caseRn  []rune
	caseDf  bool
	armKey  string
	armPos  token.Pos
	sub     []string
	pre     []string
	posNZ   bool
	inc     int
	frames  []map[types.Object][]c34Part
	depth   int
	lenFacts []c34LenFact
	locals  map[types.Object][]c34Part // string / rune locals assigned on this path → their value as emission parts
}

func (p *c34Parser) newState() *c34St {
	return &c34St{known: map[int][]rune{}, excl: map[int][]rune{}}
}

func (s *c34St) clone() *c34St {
	n := *s
	n.decs = append([]c34Dec(nil), s.decs...)
	n.evs = append([]c34Event(nil), s.evs...)
	n.sub = append([]string(nil), s.sub...)
	n.pre = append([]string(nil), s.pre...)
	n.caseRn = append([]rune(nil), s.caseRn...)
	n.known = map[int][]rune{}
	for k, v := range s.known {
		n.known[k] = v
	}
	n.excl = map[int][]rune{}
	for k, v := range s.excl {
		n.excl[k] = v
	}
	n.frames = append([]map[types.Object][]c34Part(nil), s.frames...)
	n.lenFacts = append([]c34LenFact(nil), s.lenFacts...)
	if s.locals != nil {
		n.locals = map[types.Object][]c34Part{}
		for k, v := range s.locals {
			n.locals[k] = v
		}
	}
	return &n
}

func (p *c34Parser) mkPath(s *c34St, exit string) *c34Path {
	return &c34Path{CaseKey: s.caseKey, CaseRunes: s.caseRn, CaseDflt: s.caseDf, ArmKey: s.armKey, Sub: s.sub, Pre: s.pre,
		Decs: s.decs, Events: s.evs, Known: s.known, Excl: s.excl, Inc: s.inc, Exit: exit, PosNZ: s.posNZ, Pos: s.armPos}
}

type c34Ctl struct {
	next func(*c34St)
	ret  func(*c34St)
	cont func(*c34St)
	brk  func(*c34St)
	fall func(*c34St)
}

// render prints an expression with the `pt.` receiver dropped so that keys
// name tokenizer state by field.
func (p *c34Parser) render(e ast.Node) string {
	s := p.c.src(e)
	return strings.ReplaceAll(s, p.pt.Name()+".", "")
}

func (p *c34Parser) note(s *c34St, text string) {
	switch {
	case s.depth > 0:
		// decisions inside an inlined closure are not part of the key
	case s.caseKey == "":
		s.pre = append(s.pre, text)
	default:
		s.sub = append(s.sub, text)
	}
}

func (p *c34Parser) decide(s *c34St, e ast.Expr, truth bool, keyed bool) {
	t := "F"
	if truth {
		t = "T"
	}
	text := p.label(e) + "=" + t
	s.decs = append(s.decs, c34Dec{E: e, Truth: truth, Off: s.off, Seq: len(s.evs), Text: text})
	p.assume(e, truth, s)
	if keyed && p.mentionsObj(e, p.posP) {
		// the cursor-position early exit is not part of an arm's identity
		if truth {
			text = "pos-exit"
		} else {
			keyed = false
		}
	}
	if keyed {
		p.note(s, text)
	}
}

// ---------------------------------------------------------------- walker

func (p *c34Parser) walk(list []ast.Stmt, s *c34St, ctl c34Ctl) {
	if len(list) == 0 {
		ctl.next(s)
		return
	}
	rest := ctl
	rest.next = func(s2 *c34St) { p.walk(list[1:], s2, ctl) }
	p.stmt(list[0], s, rest)
}

func (p *c34Parser) isObj(e ast.Expr, o types.Object) bool {
	id, ok := unparen(e).(*ast.Ident)
	return ok && o != nil && p.info.ObjectOf(id) == o
}

// ptField: e is pt.<field> → field name
func (p *c34Parser) ptField(e ast.Expr) (string, *types.Var) {
	se, ok := unparen(e).(*ast.SelectorExpr)
	if !ok || !p.isObj(se.X, p.pt) {
		return "", nil
	}
	v, _ := fieldOf(p.info, se)
	if v == nil {
		return "", nil
	}
	return v.Name(), v
}

var c34Tracked = map[string]bool{"Unsafe": true, "ExpectFunc": true, "ExpectParam": true, "pop": true, "FuncName": true,
	"Parameters": true, "Escaped": true, "Comment": true, "QuoteSingle": true, "QuoteDouble": true, "QuoteBrace": true,
	"NestedBlock": true, "VarSigil": true, "VarBrace": true}

// inert: the node has no effect the summaries track (no emission, no index
// change, no exit, no store to tracked tokenizer state), so an `if` around it
// need not split the path.
func (p *c34Parser) inert(n ast.Node) bool {
	if v, ok := p.inertMemo[n]; ok {
		return v
	}
	p.inertMemo[n] = false // recursion guard
	ok := true
	ast.Inspect(n, func(x ast.Node) bool {
		if !ok {
			return false
		}
		switch v := x.(type) {
		case *ast.FuncLit:
			return false
		case *ast.ReturnStmt, *ast.BranchStmt, *ast.ForStmt, *ast.RangeStmt, *ast.DeferStmt, *ast.GoStmt, *ast.LabeledStmt, *ast.SelectStmt:
			ok = false
		case *ast.IncDecStmt:
			if !p.lhsInert(v.X) {
				ok = false
			}
		case *ast.AssignStmt:
			for _, l := range v.Lhs {
				if !p.lhsInert(l) {
					ok = false
				}
			}
		case *ast.CallExpr:
			if id, isId := unparen(v.Fun).(*ast.Ident); isId {
				if fl, isCl := p.closures[p.info.ObjectOf(id)]; isCl && !p.inert(fl.Body) {
					ok = false
				}
			}
		}
		return ok
	})
	p.inertMemo[n] = ok
	return ok
}

func (p *c34Parser) lhsInert(l ast.Expr) bool {
	l = unparen(l)
	if p.isObj(l, p.out) || p.isObj(l, p.idx) || p.isObj(l, p.block) {
		return false
	}
	if st, ok := l.(*ast.StarExpr); ok {
		if f, _ := p.ptField(st.X); f == "pop" {
			return false
		}
		return true
	}
	if ix, ok := l.(*ast.IndexExpr); ok {
		if p.isObj(ix.X, p.block) {
			return false
		}
		return p.lhsInert(ix.X)
	}
	if f, _ := p.ptField(l); f != "" {
		return !c34Tracked[f]
	}
	if id, ok := l.(*ast.Ident); ok {
		if v, ok := p.info.ObjectOf(id).(*types.Var); ok {
			if b, ok := v.Type().Underlying().(*types.Basic); ok && b.Kind() == types.Bool {
				return false
			}
		}
	}
	return true
}

func (p *c34Parser) closureOf(call *ast.CallExpr) (*ast.FuncLit, types.Object) {
	id, ok := unparen(call.Fun).(*ast.Ident)
	if !ok {
		return nil, nil
	}
	o := p.info.ObjectOf(id)
	if fl, ok := p.closures[o]; ok {
		return fl, o
	}
	return nil, nil
}

func (p *c34Parser) stmt(n ast.Stmt, s *c34St, ctl c34Ctl) {
	switch v := n.(type) {
	case *ast.BlockStmt:
		p.walk(v.List, s, ctl)
	case *ast.EmptyStmt, *ast.DeclStmt:
		if ds, ok := n.(*ast.DeclStmt); ok {
			p.scanNode(ds, s)
		}
		ctl.next(s)
	case *ast.ExprStmt:
		call, ok := unparen(v.X).(*ast.CallExpr)
		if !ok {
			p.problem(n.Pos(), "expression statement %s", p.c.src(n))
			ctl.next(s)
			return
		}
		if fl, _ := p.closureOf(call); fl != nil {
			p.inline(call, fl, s, ctl)
			return
		}
		p.scanExpr(call, s, nil)
		if p.touches(call) {
			p.problem(n.Pos(), "call %s passes tokenizer output/index/state to a function that is not a local closure", p.c.src(call))
		}
		ctl.next(s)
	case *ast.IncDecStmt:
		p.scanExpr(v.X, s, nil)
		if p.isObj(v.X, p.idx) {
			if v.Tok == token.INC {
				s.off++
				s.inc++
				s.evs = append(s.evs, c34Event{Kind: c34EvInc, Pos: n.Pos(), Off: s.off})
			} else {
				s.off--
				s.evs = append(s.evs, c34Event{Kind: c34EvIdxBad, Pos: n.Pos(), Off: s.off, Note: p.c.src(n)})
			}
		} else {
			p.store(s, v.X, v.Tok, nil, n.Pos())
		}
		ctl.next(s)
	case *ast.AssignStmt:
		p.assign(v, s)
		ctl.next(s)
	case *ast.IfStmt:
		if v.Init != nil {
			p.problem(n.Pos(), "if with init statement: %s", p.c.src(v.Init))
		}
		p.scanExpr(v.Cond, s, nil)
		if p.inert(v.Body) && (v.Else == nil || p.inert(v.Else)) {
			t := s.clone()
			p.assume(v.Cond, true, t)
			p.scanNode(v.Body, t)
			s.evs = append(s.evs, t.evs[len(s.evs):]...)
			if v.Else != nil {
				f := s.clone()
				p.assume(v.Cond, false, f)
				p.scanNode(v.Else, f)
				s.evs = append(s.evs, f.evs[len(s.evs):]...)
			}
			ctl.next(s)
			return
		}
		t := s.clone()
		p.decide(t, v.Cond, true, true)
		p.walk(v.Body.List, t, ctl)
		f := s
		p.decide(f, v.Cond, false, true)
		if v.Else != nil {
			p.stmt(v.Else, f, ctl)
		} else {
			ctl.next(f)
		}
	case *ast.SwitchStmt:
		p.doSwitch(v, s, ctl)
	case *ast.ReturnStmt:
		for _, r := range v.Results {
			if !p.isObj(r, p.pt) && !p.isObj(r, p.out) {
				p.problem(n.Pos(), "return with explicit results %s", p.c.src(n))
			}
		}
		ctl.ret(s)
	case *ast.BranchStmt:
		switch {
		case v.Tok == token.CONTINUE && v.Label == nil:
			ctl.cont(s)
		case v.Tok == token.FALLTHROUGH && ctl.fall != nil:
			ctl.fall(s)
		case v.Tok == token.BREAK && v.Label == nil:
			ctl.brk(s)
		default:
			p.problem(n.Pos(), "branch statement %s", p.c.src(n))
			ctl.next(s)
		}
	case *ast.DeferStmt:
		if fl, ok := v.Call.Fun.(*ast.FuncLit); ok {
			if p.touches(fl.Body) {
				p.problem(n.Pos(), "deferred function touches the highlighted output / loop index / input")
			}
		} else {
			p.problem(n.Pos(), "defer of %s", p.c.src(v.Call))
		}
		ctl.next(s)
	default:
		p.problem(n.Pos(), "statement %T (%s) in the tokenizer loop", n, firstLine(p.c.src(n)))
		ctl.next(s)
	}
}

func c34Q(r rune) string {
	switch r {
	case '\t':
		return `'\t'`
	case '\r':
		return `'\r'`
	case '\n':
		return `'\n'`
	case '\'':
		return `'\''`
	case '\\':
		return `'\\'`
	}
	return "'" + string(r) + "'"
}

func firstLine(s string) string {
	if i := strings.IndexByte(s, '\n'); i >= 0 {
		return s[:i] + " …"
	}
	return s
}

// touches: node mentions the output string, the loop index or the input slice.
func (p *c34Parser) touches(n ast.Node) bool {
	hit := false
	ast.Inspect(n, func(x ast.Node) bool {
		if id, ok := x.(*ast.Ident); ok {
			o := p.info.ObjectOf(id)
			if o != nil && (o == p.out || o == p.idx || o == p.block) {
				hit = true
			}
		}
		return !hit
	})
	return hit
}

// inline walks a closure body with its parameters bound to the evaluated
// arguments of the call.
func (p *c34Parser) inline(call *ast.CallExpr, fl *ast.FuncLit, s *c34St, ctl c34Ctl) {
	if s.depth > 4 {
		p.problem(call.Pos(), "closure recursion at %s", p.c.src(call))
		ctl.next(s)
		return
	}
	for _, a := range call.Args {
		p.scanExpr(a, s, nil)
	}
	bind := map[types.Object][]c34Part{}
	ai := 0
	var params []*ast.Ident
	var ptypes []ast.Expr
	for _, f := range fl.Type.Params.List {
		for _, nm := range f.Names {
			params = append(params, nm)
			ptypes = append(ptypes, f.Type)
		}
	}
	for k, nm := range params {
		o := p.info.Defs[nm]
		if _, variadic := ptypes[k].(*ast.Ellipsis); variadic {
			var parts []c34Part
			if call.Ellipsis.IsValid() && ai < len(call.Args) {
				parts = p.evalRunes(call.Args[ai], s)
			} else {
				for _, a := range call.Args[min(ai, len(call.Args)):] {
					parts = append(parts, p.evalByType(a, s)...)
				}
			}
			bind[o] = parts
			ai = len(call.Args)
			continue
		}
		if ai < len(call.Args) {
			bind[o] = p.evalByType(call.Args[ai], s)
			ai++
		}
	}
	if fl.Type.Results != nil && len(fl.Type.Results.List) > 0 {
		p.problem(call.Pos(), "result of closure call %s discarded", p.c.src(call))
	}
	s.frames = append(s.frames, bind)
	s.depth++
	after := func(s2 *c34St) {
		s2.frames = s2.frames[:len(s2.frames)-1]
		s2.depth--
		ctl.next(s2)
	}
	bad := func(what string) func(*c34St) {
		return func(s2 *c34St) {
			p.problem(call.Pos(), "%s inside closure called at %s", what, p.c.src(call))
			after(s2)
		}
	}
	p.walk(fl.Body.List, s, c34Ctl{next: after, ret: after, cont: bad("continue"), brk: bad("break")})
}

func (p *c34Parser) evalByType(a ast.Expr, s *c34St) []c34Part {
	t := p.info.TypeOf(a)
	if t == nil {
		return []c34Part{{Kind: c34Unknown, Desc: p.c.src(a)}}
	}
	switch u := t.Underlying().(type) {
	case *types.Basic:
		switch {
		case u.Kind() == types.String || u.Kind() == types.UntypedString:
			return p.evalString(a, s)
		case u.Kind() == types.Int32 || u.Kind() == types.UntypedRune:
			return []c34Part{p.evalRune(a, s)}
		}
	case *types.Slice:
		return p.evalRunes(a, s)
	}
	return []c34Part{{Kind: c34Unknown, Desc: p.c.src(a)}}
}

func (p *c34Parser) bound(o types.Object, s *c34St) ([]c34Part, bool) {
	for k := len(s.frames) - 1; k >= 0; k-- {
		if v, ok := s.frames[k][o]; ok {
			return v, true
		}
	}
	if v, ok := s.locals[o]; ok {
		return v, true
	}
	return nil, false
}

// ---------------------------------------------------------------- switch

func (p *c34Parser) doSwitch(sw *ast.SwitchStmt, s *c34St, ctl c34Ctl) {
	if sw.Init != nil {
		p.problem(sw.Pos(), "switch with init statement")
	}
	var clauses []*ast.CaseClause
	dflt := -1
	for k, st := range sw.Body.List {
		cc := st.(*ast.CaseClause)
		clauses = append(clauses, cc)
		if cc.List == nil {
			dflt = k
		}
	}
	after := ctl.next
	var runClause func(k int, s *c34St)
	runClause = func(k int, s *c34St) {
		c2 := ctl
		c2.next = after
		c2.brk = after
		c2.fall = nil
		if k+1 < len(clauses) {
			c2.fall = func(s2 *c34St) { runClause(k+1, s2) }
		}
		p.walk(clauses[k].Body, s, c2)
	}

	if sw.Tag != nil {
		p.scanExpr(sw.Tag, s, nil)
		isOuter := false
		tagOff, tagOnBlock := 0, false
		if ix, ok := unparen(sw.Tag).(*ast.IndexExpr); ok && p.isObj(ix.X, p.block) {
			if ci, cl, k, ok := p.lin(ix.Index); ok && ci == 1 && cl == 0 {
				tagOff, tagOnBlock = s.off+k, true
			}
		}
		if id, ok := unparen(sw.Tag).(*ast.Ident); ok && !tagOnBlock {
			// `r := block[i]; switch r {`: a rune local assigned on this path from one source rune
			if parts, ok := p.bound(p.info.ObjectOf(id), s); ok && len(parts) == 1 && parts[0].Kind == c34Src {
				tagOff, tagOnBlock = parts[0].Off, true
			}
		}
		if tagOnBlock && s.caseKey == "" && s.depth == 0 && p.outer == nil || sw == p.outer {
			isOuter = true
			p.outer = sw
		}
		var all []rune
		vals := make([][]rune, len(clauses))
		for k, cc := range clauses {
			for _, e := range cc.List {
				cv := constOf(p.info, e)
				if cv == nil || cv.Kind() != constant.Int {
					p.problem(e.Pos(), "non-constant case %s of switch %s", p.c.src(e), p.c.src(sw.Tag))
					continue
				}
				x, _ := constant.Int64Val(cv)
				vals[k] = append(vals[k], rune(x))
				all = append(all, rune(x))
			}
		}
		for k, cc := range clauses {
			t := s.clone()
			var label string
			if cc.List == nil {
				label = "default"
				if tagOnBlock {
					t.excl[tagOff] = append(append([]rune(nil), t.excl[tagOff]...), all...)
				}
			} else {
				var qs []string
				for _, r := range vals[k] {
					qs = append(qs, c34Q(r))
				}
				label = strings.Join(qs, ",")
				if tagOnBlock {
					t.known[tagOff] = vals[k]
				}
			}
			t.decs = append(t.decs, c34Dec{E: sw.Tag, Truth: cc.List != nil, Off: s.off, Seq: len(s.evs), Text: p.render(sw.Tag) + "∈{" + label + "}"})
			if isOuter {
				t.caseKey = label
				t.caseRn = vals[k]
				t.caseDf = cc.List == nil
				t.armPos = cc.Pos()
			} else {
				if tagOnBlock {
					p.note(t, fmt.Sprintf("src[%+d]=%s", tagOff, label))
				} else {
					p.note(t, p.render(sw.Tag)+"="+label)
				}
			}
			runClause(k, t)
		}
		if dflt < 0 {
			t := s
			if tagOnBlock {
				t.excl[tagOff] = append(append([]rune(nil), t.excl[tagOff]...), all...)
			}
			if isOuter {
				t.caseKey, t.caseDf = "default", true
				t.armKey = "(no clause)"
			}
			after(t)
		}
		return
	}

	// tagless switch: first true expression wins
	isArm := s.caseKey != "" && s.armKey == "" && s.depth == 0
	cur := s
	for k, cc := range clauses {
		for _, e := range cc.List {
			p.scanExpr(e, cur, nil)
			t := cur.clone()
			p.decide(t, e, true, !isArm)
			if isArm {
				t.armKey = p.label(e)
				t.armPos = e.Pos()
			}
			runClause(k, t)
			p.decide(cur, e, false, false)
		}
	}
	if dflt >= 0 {
		if isArm {
			cur.armKey = "default"
			cur.armPos = clauses[dflt].Pos()
		} else {
			p.note(cur, "default")
		}
		runClause(dflt, cur)
	} else {
		if isArm {
			cur.armKey = "(no arm)"
		}
		after(cur)
	}
}

// ---------------------------------------------------------------- assignments

func (p *c34Parser) assign(as *ast.AssignStmt, s *c34St) {
	for _, r := range as.Rhs {
		p.scanExpr(r, s, nil)
	}
	for _, l := range as.Lhs {
		p.scanLhs(l, s)
	}
	if len(as.Lhs) != 1 || len(as.Rhs) != 1 {
		for _, l := range as.Lhs {
			if !p.lhsInert(l) {
				p.problem(as.Pos(), "tuple assignment %s", p.c.src(as))
			}
		}
		return
	}
	lhs, rhs := unparen(as.Lhs[0]), as.Rhs[0]
	switch {
	case p.isObj(lhs, p.out):
		switch as.Tok {
		case token.ADD_ASSIGN:
			s.evs = append(s.evs, c34Event{Kind: c34EvEmit, Pos: as.Pos(), Off: s.off, Parts: p.evalString(rhs, s)})
		case token.ASSIGN:
			if n, ok := p.truncOf(rhs); ok {
				s.evs = append(s.evs, c34Event{Kind: c34EvTrunc, Pos: as.Pos(), Off: s.off, Trunc: n})
				return
			}
			if n, ok := p.trimSuffixOf(rhs, s); ok {
				s.evs = append(s.evs, c34Event{Kind: c34EvTrunc, Pos: as.Pos(), Off: s.off, Trunc: n})
				return
			}
			// out = out + …  |  out = <colour> (prologue)
			parts := p.evalString(rhs, s)
			if len(parts) > 0 && parts[0].Kind == c34Unknown && parts[0].Desc == "\x00self" {
				s.evs = append(s.evs, c34Event{Kind: c34EvEmit, Pos: as.Pos(), Off: s.off, Parts: parts[1:]})
				return
			}
			if s.ub < 0 && len(s.evs) == 0 || p.outEmptySoFar(s) {
				s.evs = append(s.evs, c34Event{Kind: c34EvEmit, Pos: as.Pos(), Off: s.off, Parts: parts, Note: "init"})
				return
			}
			p.problem(as.Pos(), "the highlighted output is overwritten: %s", p.c.src(as))
		default:
			p.problem(as.Pos(), "operation %s on the highlighted output", as.Tok)
		}
	case p.isObj(lhs, p.idx):
		if as.Tok == token.ADD_ASSIGN {
			if k, ok := constInt(p.info, rhs); ok && k > 0 {
				s.off += int(k)
				s.inc += int(k)
				s.evs = append(s.evs, c34Event{Kind: c34EvInc, Pos: as.Pos(), Off: s.off})
				return
			}
		}
		s.evs = append(s.evs, c34Event{Kind: c34EvIdxBad, Pos: as.Pos(), Off: s.off, Note: p.c.src(as)})
	default:
		tok := as.Tok
		if be, ok := unparen(rhs).(*ast.BinaryExpr); ok && tok == token.ASSIGN && (be.Op == token.ADD || be.Op == token.SUB) &&
			p.c.sameExpr(be.X, lhs) && len(calls(lhs, true)) == 0 {
			// `x = x + y` is the spelled-out `x += y` (strings: only with x as the LEFT operand)
			tok, rhs = token.ADD_ASSIGN, be.Y
			if be.Op == token.SUB {
				tok = token.SUB_ASSIGN
			}
		}
		p.store(s, lhs, tok, rhs, as.Pos())
	}
}

// outEmptySoFar: no emission recorded on this (prologue) path yet.
func (p *c34Parser) outEmptySoFar(s *c34St) bool {
	if s.ub >= 0 {
		return false
	}
	for _, e := range s.evs {
		if e.Kind == c34EvEmit || e.Kind == c34EvTrunc {
			return false
		}
	}
	return true
}

// truncOf recognises out[:len(out)-k].
func (p *c34Parser) truncOf(e ast.Expr) (int, bool) {
	se, ok := unparen(e).(*ast.SliceExpr)
	if !ok || !p.isObj(se.X, p.out) || se.Low != nil || se.High == nil || se.Slice3 {
		return 0, false
	}
	be, ok := unparen(se.High).(*ast.BinaryExpr)
	if !ok || be.Op != token.SUB {
		return 0, false
	}
	call, ok := isBuiltinCall(p.info, be.X, "len")
	if !ok || !p.isObj(call.Args[0], p.out) {
		return 0, false
	}
	k, ok := constInt(p.info, be.Y)
	if !ok || k <= 0 {
		return 0, false
	}
	return int(k), true
}

// trimSuffixOf recognises strings.TrimSuffix(out, string(block[i-k])) on a path where a
// decision strings.HasSuffix(out, <the same source rune>) == true holds and nothing was appended
// or cut since: the call then removes exactly that rune, like out[:len(out)-1] does for a
// single-byte rune (the consumers require the rune to be pinned to single-byte values).
func (p *c34Parser) trimSuffixOf(e ast.Expr, s *c34St) (int, bool) {
	call, ok := unparen(e).(*ast.CallExpr)
	if !ok || len(call.Args) != 2 || !callIs(p.info, call, "strings", "", "TrimSuffix") || !p.isObj(call.Args[0], p.out) {
		return 0, false
	}
	parts := p.evalString(call.Args[1], s)
	if len(parts) != 1 || parts[0].Kind != c34Src {
		return 0, false
	}
	for _, d := range s.decs {
		clean := true
		for _, ev := range s.evs[min(d.Seq, len(s.evs)):] {
			if ev.Kind == c34EvEmit || ev.Kind == c34EvTrunc {
				clean = false
			}
		}
		if !clean {
			continue
		}
		for _, f := range factsOf([]Guard{{Cond: d.E, Neg: !d.Truth}}) {
			hc, isCall := unparen(f.E).(*ast.CallExpr)
			if !isCall || !f.True || len(hc.Args) != 2 || !callIs(p.info, hc, "strings", "", "HasSuffix") || !p.isObj(hc.Args[0], p.out) {
				continue
			}
			st := p.newState()
			st.off = d.Off
			hp := p.evalString(hc.Args[1], st)
			if len(hp) == 1 && hp[0].Kind == c34Src && hp[0].Off == parts[0].Off {
				return 1, true
			}
		}
	}
	return 0, false
}

func (p *c34Parser) store(s *c34St, lhs ast.Expr, op token.Token, rhs ast.Expr, pos token.Pos) {
	lhs = unparen(lhs)
	st := &c34Store{Op: op, Rhs: rhs, Class: "other"}
	switch v := lhs.(type) {
	case *ast.StarExpr:
		if f, _ := p.ptField(v.X); f == "pop" {
			st.Target, st.ViaPop = "*pop", true
		} else {
			st.Target = "*" + p.render(v.X)
		}
	case *ast.IndexExpr:
		if p.isObj(v.X, p.block) {
			p.problem(pos, "store into the input slice: %s", p.c.src(lhs))
		}
		st.Target = p.render(v.X) + "[]"
		if f, fv := p.ptField(v.X); f != "" {
			st.Obj = fv
		}
	case *ast.Ident:
		st.Obj = p.info.ObjectOf(v)
		st.Target = v.Name
		if v.Name == "_" {
			return
		}
		// a local holding text (s := string(block[i]); out += s)
		if lv, ok := st.Obj.(*types.Var); ok && rhs != nil && (op == token.DEFINE || op == token.ASSIGN) && lv.Parent() != p.pk.Types.Scope() {
			isText := false
			switch u := lv.Type().Underlying().(type) {
			case *types.Basic:
				isText = u.Kind() == types.String || u.Kind() == types.Int32
			case *types.Slice:
				if b, ok := u.Elem().Underlying().(*types.Basic); ok && b.Kind() == types.Int32 {
					isText = true
				}
			}
			if isText {
				if s.locals == nil {
					s.locals = map[types.Object][]c34Part{}
				}
				s.locals[lv] = p.evalByType(rhs, s)
			}
		}
		if st.Obj != nil && st.Obj.Parent() == p.pk.Types.Scope() {
			p.problem(pos, "store to package-level variable %s inside Parse", v.Name)
		}
	default:
		if f, fv := p.ptField(lhs); f != "" {
			st.Target, st.Obj = f, fv
		} else {
			st.Target = p.render(lhs)
		}
	}
	if rhs != nil {
		st.Class = p.classify(rhs)
	} else if op == token.INC {
		st.Class = "++"
	} else if op == token.DEC {
		st.Class = "--"
	}
	// colour stack discipline: only colours may be pushed on a local []string
	if id, ok := lhs.(*ast.Ident); ok && rhs != nil {
		if call, ok := isBuiltinCall(p.info, rhs, "append"); ok && p.isObj(call.Args[0], st.Obj) {
			if sl, ok := st.Obj.Type().Underlying().(*types.Slice); ok {
				if b, ok := sl.Elem().Underlying().(*types.Basic); ok && b.Kind() == types.String {
					for _, a := range call.Args[1:] {
						for _, part := range p.evalString(a, s) {
							if part.Kind != c34Colour {
								p.problem(pos, "%s pushed on the colour stack %s is not a colour constant (%s)", p.c.src(a), id.Name, part)
							}
						}
					}
				}
			}
		}
	}
	s.evs = append(s.evs, c34Event{Kind: c34EvStore, Pos: pos, Off: s.off, Store: st})
}

func (p *c34Parser) isFoldCall(e ast.Expr) bool {
	call, ok := unparen(e).(*ast.CallExpr)
	if !ok || len(call.Args) != 1 {
		return false
	}
	if !callIs(p.info, call, mx(c34ParserPkg), "", "isCmdUnsafe") {
		return false
	}
	f, _ := p.ptField(call.Args[0])
	return f == "FuncName"
}

func (p *c34Parser) classify(rhs ast.Expr) string {
	rhs = unparen(rhs)
	if cv := constOf(p.info, rhs); cv != nil {
		switch cv.Kind() {
		case constant.Bool:
			if constant.BoolVal(cv) {
				return "true"
			}
			return "false"
		case constant.String:
			return "str:" + constant.StringVal(cv)
		case constant.Int:
			return "int:" + cv.ExactString()
		}
	}
	if u, ok := rhs.(*ast.UnaryExpr); ok && u.Op == token.AND {
		x := unparen(u.X)
		if f, _ := p.ptField(x); f != "" {
			return "&" + f
		}
		if ix, ok := x.(*ast.IndexExpr); ok {
			if f, _ := p.ptField(ix.X); f != "" {
				return "&" + f
			}
		}
	}
	if p.isFoldCall(rhs) {
		return "foldcall" // Unsafe = isCmdUnsafe(FuncName): a fold only where Unsafe is known false (c34Summarise)
	}
	if be, ok := rhs.(*ast.BinaryExpr); ok && be.Op == token.LOR {
		fu := func(a, b ast.Expr) bool {
			f, _ := p.ptField(b)
			return p.isFoldCall(a) && f == "Unsafe"
		}
		if fu(be.X, be.Y) || fu(be.Y, be.X) {
			return "fold"
		}
	}
	return "other"
}

// ---------------------------------------------------------------- emission values

func (p *c34Parser) evalString(e ast.Expr, s *c34St) []c34Part {
	e = unparen(e)
	if be, ok := e.(*ast.BinaryExpr); ok && be.Op == token.ADD {
		return append(p.evalString(be.X, s), p.evalString(be.Y, s)...)
	}
	if cv := constOf(p.info, e); cv != nil && cv.Kind() == constant.String {
		v := constant.StringVal(cv)
		switch {
		case v == "":
			return nil
		case c34RxSGR.MatchString(v):
			return []c34Part{{Kind: c34Colour, Desc: p.c.src(e)}}
		}
		return []c34Part{{Kind: c34Lit, Lit: v}}
	}
	switch v := e.(type) {
	case *ast.BinaryExpr:
		if v.Op == token.ADD {
			return append(p.evalString(v.X, s), p.evalString(v.Y, s)...)
		}
	case *ast.CallExpr:
		if tv, ok := p.info.Types[v.Fun]; ok && tv.IsType() && len(v.Args) == 1 {
			if b, ok := tv.Type.Underlying().(*types.Basic); ok && b.Kind() == types.String {
				return p.evalByTypeConv(v.Args[0], s)
			}
		}
	case *ast.Ident:
		o := p.info.ObjectOf(v)
		if o == p.out {
			return []c34Part{{Kind: c34Unknown, Desc: "\x00self"}}
		}
		if parts, ok := p.bound(o, s); ok {
			return parts
		}
		if p.colourVarOK(o) {
			return []c34Part{{Kind: c34Colour, Desc: v.Name}}
		}
	case *ast.IndexExpr:
		// element of a colour-only string slice (package-level table or the local stack)
		if id, ok := unparen(v.X).(*ast.Ident); ok {
			o := p.info.ObjectOf(id)
			if p.colourSliceOK(o) {
				return []c34Part{{Kind: c34Colour, Desc: p.c.src(e)}}
			}
		}
	}
	return []c34Part{{Kind: c34Unknown, Desc: p.c.src(e)}}
}

// evalByTypeConv: operand of a string(…) conversion.
func (p *c34Parser) evalByTypeConv(a ast.Expr, s *c34St) []c34Part {
	t := p.info.TypeOf(a)
	if t != nil {
		switch u := t.Underlying().(type) {
		case *types.Basic:
			if u.Kind() == types.Int32 || u.Kind() == types.UntypedRune {
				return []c34Part{p.evalRune(a, s)}
			}
		case *types.Slice:
			if b, ok := u.Elem().Underlying().(*types.Basic); ok && b.Kind() == types.Int32 {
				return p.evalRunes(a, s)
			}
		}
	}
	return []c34Part{{Kind: c34Unknown, Desc: "string(" + p.c.src(a) + ")"}}
}

func (p *c34Parser) evalRune(e ast.Expr, s *c34St) c34Part {
	e = unparen(e)
	if cv := constOf(p.info, e); cv != nil && cv.Kind() == constant.Int {
		x, _ := constant.Int64Val(cv)
		return c34Part{Kind: c34Lit, Lit: string(rune(x))}
	}
	switch v := e.(type) {
	case *ast.IndexExpr:
		if p.isObj(v.X, p.block) {
			if ci, cl, k, ok := p.lin(v.Index); ok && ci == 1 && cl == 0 {
				return c34Part{Kind: c34Src, Off: s.off + k}
			}
		}
	case *ast.Ident:
		if parts, ok := p.bound(p.info.ObjectOf(v), s); ok && len(parts) == 1 {
			return parts[0]
		}
	}
	return c34Part{Kind: c34Unknown, Desc: p.c.src(e)}
}

func (p *c34Parser) evalRunes(e ast.Expr, s *c34St) []c34Part {
	e = unparen(e)
	switch v := e.(type) {
	case *ast.Ident:
		if parts, ok := p.bound(p.info.ObjectOf(v), s); ok {
			return parts
		}
	case *ast.SliceExpr:
		if p.isObj(v.X, p.block) && !v.Slice3 && v.Low != nil {
			ci, cl, lo, ok := p.lin(v.Low)
			if ok && ci == 1 && cl == 0 {
				if v.High == nil {
					return []c34Part{{Kind: c34Rest, Off: s.off + lo}}
				}
				ci2, cl2, hi, ok2 := p.lin(v.High)
				if ok2 && ci2 == 1 && cl2 == 0 && hi >= lo {
					return []c34Part{{Kind: c34Slice, Off: s.off + lo, N: hi - lo}}
				}
			}
		}
	case *ast.CompositeLit:
		var out []c34Part
		for _, el := range v.Elts {
			out = append(out, p.evalRune(el, s))
		}
		return out
	}
	return []c34Part{{Kind: c34Unknown, Desc: p.c.src(e)}}
}

// colourVarOK: package-level string variable (or constant) whose only value is
// a colour constant expression and that is never assigned in the package.
func (p *c34Parser) colourVarOK(o types.Object) bool {
	v, ok := o.(*types.Var)
	if !ok || v.Parent() != p.pk.Types.Scope() {
		return false
	}
	if st := p.colourVar[o]; st != 0 {
		return st == 1
	}
	p.colourVar[o] = 2
	init := p.pkgVarInit(o)
	if init == nil || p.pkgVarAssigned(o) {
		return false
	}
	for _, part := range p.evalString(init, p.newState()) {
		if part.Kind != c34Colour {
			return false
		}
	}
	p.colourVar[o] = 1
	return true
}

// colourSliceOK: []string whose every element source is a colour: a package
// level table initialised by a composite literal of colours and never
// assigned, or a local stack (pushes are checked where they happen).
func (p *c34Parser) colourSliceOK(o types.Object) bool {
	v, ok := o.(*types.Var)
	if !ok {
		return false
	}
	sl, ok := v.Type().Underlying().(*types.Slice)
	if !ok {
		return false
	}
	if b, ok := sl.Elem().Underlying().(*types.Basic); !ok || b.Kind() != types.String {
		return false
	}
	if st := p.colourVar[o]; st != 0 {
		return st == 1
	}
	p.colourVar[o] = 2
	var init ast.Expr
	if v.Parent() == p.pk.Types.Scope() {
		init = p.pkgVarInit(o)
		if p.pkgVarAssigned(o) {
			return false
		}
	} else {
		// local of Parse: its := definition; later stores are append(stack, colour)
		// (checked in store) or re-slices of itself
		okAll := true
		ast.Inspect(p.fd.Body, func(n ast.Node) bool {
			as, ok := n.(*ast.AssignStmt)
			if !ok {
				return true
			}
			for k, l := range as.Lhs {
				id, ok := l.(*ast.Ident)
				if !ok || p.info.ObjectOf(id) != o || k >= len(as.Rhs) {
					continue
				}
				r := unparen(as.Rhs[k])
				if as.Tok == token.DEFINE {
					init = r
					continue
				}
				if call, ok := isBuiltinCall(p.info, r, "append"); ok && p.isObj(call.Args[0], o) && !call.Ellipsis.IsValid() {
					continue
				}
				if se, ok := r.(*ast.SliceExpr); ok && p.isObj(se.X, o) {
					continue
				}
				okAll = false
			}
			return true
		})
		if !okAll {
			return false
		}
	}
	cl, ok := unparen(init).(*ast.CompositeLit)
	if init == nil || !ok || len(cl.Elts) == 0 {
		return false
	}
	for _, el := range cl.Elts {
		for _, part := range p.evalString(el, p.newState()) {
			if part.Kind != c34Colour {
				return false
			}
		}
	}
	p.colourVar[o] = 1
	return true
}

func (p *c34Parser) pkgVarInit(o types.Object) ast.Expr {
	for _, f := range p.pk.Syntax {
		for _, d := range f.Decls {
			gd, ok := d.(*ast.GenDecl)
			if !ok {
				continue
			}
			for _, sp := range gd.Specs {
				vs, ok := sp.(*ast.ValueSpec)
				if !ok {
					continue
				}
				for k, nm := range vs.Names {
					if p.info.Defs[nm] == o && k < len(vs.Values) {
						return vs.Values[k]
					}
				}
			}
		}
	}
	return nil
}

// pkgVarAssigned: the package-level variable is assigned (or its address
// taken) anywhere in the package.
func (p *c34Parser) pkgVarAssigned(o types.Object) bool {
	hit := false
	for _, f := range p.pk.Syntax {
		ast.Inspect(f, func(n ast.Node) bool {
			switch v := n.(type) {
			case *ast.AssignStmt:
				for _, l := range v.Lhs {
					root := unparen(l)
					for {
						if ix, ok := root.(*ast.IndexExpr); ok {
							root = unparen(ix.X)
							continue
						}
						break
					}
					if p.isObj(root, o) {
						hit = true
					}
				}
			case *ast.UnaryExpr:
				if v.Op == token.AND && p.isObj(v.X, o) {
					hit = true
				}
			case *ast.IncDecStmt:
				if p.isObj(v.X, o) {
					hit = true
				}
			}
			return !hit
		})
	}
	return hit
}

// ---------------------------------------------------------------- facts

// lin: e = ci*idx + cl*len(block) + k
func (p *c34Parser) lin(e ast.Expr) (ci, cl, k int, ok bool) {
	e = unparen(e)
	if x, isC := constInt(p.info, e); isC {
		return 0, 0, int(x), true
	}
	switch v := e.(type) {
	case *ast.Ident:
		if p.info.ObjectOf(v) == p.idx {
			return 1, 0, 0, true
		}
	case *ast.CallExpr:
		if call, isLen := isBuiltinCall(p.info, v, "len"); isLen && p.isObj(call.Args[0], p.block) {
			return 0, 1, 0, true
		}
	case *ast.BinaryExpr:
		if v.Op == token.ADD || v.Op == token.SUB {
			a1, b1, c1, ok1 := p.lin(v.X)
			a2, b2, c2, ok2 := p.lin(v.Y)
			if ok1 && ok2 {
				if v.Op == token.SUB {
					a2, b2, c2 = -a2, -b2, -c2
				}
				return a1 + a2, b1 + b2, c1 + c2, true
			}
		}
	}
	return 0, 0, 0, false
}

func c34Negate(op token.Token) token.Token {
	switch op {
	case token.LSS:
		return token.GEQ
	case token.LEQ:
		return token.GTR
	case token.GTR:
		return token.LEQ
	case token.GEQ:
		return token.LSS
	case token.EQL:
		return token.NEQ
	case token.NEQ:
		return token.EQL
	}
	return token.ILLEGAL
}

func c34Flip(op token.Token) token.Token {
	switch op {
	case token.LSS:
		return token.GTR
	case token.LEQ:
		return token.GEQ
	case token.GTR:
		return token.LSS
	case token.GEQ:
		return token.LEQ
	}
	return op
}

// blockRuneCmp: e is `block[idx+k] == <rune>` (either order) → offset, rune
func (p *c34Parser) blockRuneCmp(e ast.Expr, s *c34St) (off int, r rune, op token.Token, ok bool) {
	be, isB := unparen(e).(*ast.BinaryExpr)
	if !isB || (be.Op != token.EQL && be.Op != token.NEQ) {
		return
	}
	try := func(a, b ast.Expr) bool {
		ix, isIx := unparen(a).(*ast.IndexExpr)
		if !isIx || !p.isObj(ix.X, p.block) {
			return false
		}
		ci, cl, k, lok := p.lin(ix.Index)
		if !lok || ci != 1 || cl != 0 {
			return false
		}
		part := p.evalRune(b, s)
		if part.Kind != c34Lit {
			return false
		}
		rs := []rune(part.Lit)
		if len(rs) != 1 {
			return false
		}
		off, r, op, ok = s.off+k, rs[0], be.Op, true
		return true
	}
	if !try(be.X, be.Y) {
		try(be.Y, be.X)
	}
	return
}

// assume updates the path facts with the consequences of e having the given
// truth value. Only sound consequences are drawn; anything else is ignored.
func (p *c34Parser) assume(e ast.Expr, truth bool, s *c34St) {
	e = unparen(e)
	switch v := e.(type) {
	case *ast.UnaryExpr:
		if v.Op == token.NOT {
			p.assume(v.X, !truth, s)
		}
		return
	case *ast.BinaryExpr:
		switch v.Op {
		case token.LAND:
			if truth {
				p.assume(v.X, true, s)
				p.assume(v.Y, true, s)
			}
			return
		case token.LOR:
			if !truth {
				p.assume(v.X, false, s)
				p.assume(v.Y, false, s)
				return
			}
			// a disjunction of rune tests on the same position gives a set
			var set []rune
			pos, first, okAll := 0, true, true
			for _, d := range disjuncts(e) {
				off, r, op, ok := p.blockRuneCmp(d, s)
				if !ok || op != token.EQL || (!first && off != pos) {
					okAll = false
					break
				}
				pos, first = off, false
				set = append(set, r)
			}
			if okAll && len(set) > 0 {
				s.known[pos] = set
			}
			return
		case token.EQL, token.NEQ, token.LSS, token.LEQ, token.GTR, token.GEQ:
			if p.isObj(v.X, p.posP) {
				if z, isC := constInt(p.info, v.Y); isC && z == 0 {
					op := v.Op
					if !truth {
						op = c34Negate(op)
					}
					if op == token.NEQ || op == token.GTR {
						s.posNZ = true
					}
				}
				return
			}
			if off, r, op, ok := p.blockRuneCmp(e, s); ok {
				if !truth {
					op = c34Negate(op)
				}
				if op == token.EQL {
					s.known[off] = []rune{r}
				} else {
					s.excl[off] = append(append([]rune(nil), s.excl[off]...), r)
				}
				return
			}
			// len(x) OP const on a slice other than the input: minimum length fact
			if x, op, c, ok := cmpNorm(p.info, e); ok {
				if call, isLen := isBuiltinCall(p.info, x, "len"); isLen && !p.isObj(call.Args[0], p.block) {
					pred := intPred(op, c)
					for n := int64(0); n <= 16; n++ {
						if pred(n) == truth {
							if n > 0 {
								s.lenFacts = append(s.lenFacts, c34LenFact{call.Args[0], int(n)})
							}
							break
						}
					}
					return
				}
			}
			a1, b1, c1, ok1 := p.lin(v.X)
			a2, b2, c2, ok2 := p.lin(v.Y)
			if !ok1 || !ok2 {
				return
			}
			ci, cl, k := a1-a2, b1-b2, c1-c2 // D = ci*i + cl*L + k   (D op 0)
			op := v.Op
			if !truth {
				op = c34Negate(op)
			}
			if ci == 0 && cl == 0 && p.mentionsObj(e, p.posP) {
				return
			}
			if ci < 0 {
				ci, cl, k = -ci, -cl, -k
				op = c34Flip(op)
			}
			if ci != 1 {
				return
			}
			// i = i0 + off
			k += s.off
			switch cl {
			case -1: // i0 + k - L op 0
				switch op {
				case token.LSS:
					s.ub = max(s.ub, k)
				case token.LEQ:
					s.ub = max(s.ub, k-1)
				}
			case 0: // i0 + k op 0
				switch op {
				case token.GTR:
					s.lb = max(s.lb, -k+1)
				case token.GEQ:
					s.lb = max(s.lb, -k)
				case token.NEQ:
					if s.lb == -k {
						s.lb++
					}
				}
			}
			return
		}
	case *ast.CallExpr:
		// value closure (`next`): facts of its single path yielding that truth value
		fl, _ := p.closureOf(v)
		if fl == nil {
			return
		}
		type rp struct {
			guards []c34Dec
			res    ast.Expr
		}
		var rps []rp
		var enum func(list []ast.Stmt, g []c34Dec) bool
		enum = func(list []ast.Stmt, g []c34Dec) bool {
			for _, st := range list {
				switch x := st.(type) {
				case *ast.ReturnStmt:
					if len(x.Results) != 1 {
						return false
					}
					rps = append(rps, rp{append([]c34Dec(nil), g...), x.Results[0]})
					return true
				case *ast.IfStmt:
					if x.Init != nil || x.Else != nil {
						return false
					}
					if !enum(x.Body.List, append(append([]c34Dec(nil), g...), c34Dec{E: x.Cond, Truth: true})) {
						return false
					}
					g = append(g, c34Dec{E: x.Cond, Truth: false})
				default:
					return false
				}
			}
			return true
		}
		if !enum(fl.Body.List, nil) {
			return
		}
		var cand []rp
		for _, r := range rps {
			if b, ok := constBool(p.info, r.res); ok && b != truth {
				continue
			}
			cand = append(cand, r)
		}
		if len(cand) != 1 {
			return
		}
		// bind parameters
		bind := map[types.Object][]c34Part{}
		k := 0
		for _, f := range fl.Type.Params.List {
			for _, nm := range f.Names {
				if k < len(v.Args) {
					bind[p.info.Defs[nm]] = p.evalByType(v.Args[k], s)
				}
				k++
			}
		}
		s.frames = append(s.frames, bind)
		for _, g := range cand[0].guards {
			p.assume(g.E, g.Truth, s)
		}
		if _, isConst := constBool(p.info, cand[0].res); !isConst {
			p.assume(cand[0].res, truth, s)
		}
		s.frames = s.frames[:len(s.frames)-1]
		return
	}
}

func (p *c34Parser) mentionsObj(n ast.Node, o types.Object) bool {
	hit := false
	ast.Inspect(n, func(x ast.Node) bool {
		if id, ok := x.(*ast.Ident); ok && p.info.ObjectOf(id) == o {
			hit = true
		}
		return !hit
	})
	return hit
}

// ---------------------------------------------------------------- index expressions

// scanNode records the index expressions of a statement subtree that is not
// walked as part of the path (inert ifs), honouring nested if guards.
func (p *c34Parser) scanNode(n ast.Node, s *c34St) {
	switch v := n.(type) {
	case nil:
	case *ast.BlockStmt:
		for _, st := range v.List {
			p.scanNode(st, s)
		}
	case *ast.IfStmt:
		p.scanExpr(v.Cond, s, nil)
		t := s.clone()
		p.assume(v.Cond, true, t)
		p.scanNode(v.Body, t)
		s.evs = append(s.evs, t.evs[len(s.evs):]...)
		if v.Else != nil {
			f := s.clone()
			p.assume(v.Cond, false, f)
			p.scanNode(v.Else, f)
			s.evs = append(s.evs, f.evs[len(s.evs):]...)
		}
	case *ast.AssignStmt:
		for _, r := range v.Rhs {
			p.scanExpr(r, s, nil)
		}
		for _, l := range v.Lhs {
			p.scanLhs(l, s)
		}
	case *ast.ExprStmt:
		p.scanExpr(v.X, s, nil)
	case *ast.IncDecStmt:
		p.scanExpr(v.X, s, nil)
	case *ast.DeclStmt:
		ast.Inspect(v, func(x ast.Node) bool {
			if e, ok := x.(ast.Expr); ok {
				p.scanExpr(e, s, nil)
				return false
			}
			return true
		})
	default:
		ast.Inspect(n, func(x ast.Node) bool {
			if e, ok := x.(ast.Expr); ok {
				p.scanExpr(e, s, nil)
				return false
			}
			return true
		})
	}
}

func (p *c34Parser) scanLhs(l ast.Expr, s *c34St) {
	l = unparen(l)
	if _, ok := l.(*ast.Ident); ok {
		return
	}
	p.scanExpr(l, s, nil)
}

// scanExpr visits e in evaluation order; operands of && / || are visited under
// the facts their left operand establishes. Index and slice expressions are
// judged against the bounds facts of the state at that point.
func (p *c34Parser) scanExpr(e ast.Expr, s *c34St, _ any) {
	switch v := e.(type) {
	case nil:
	case *ast.ParenExpr:
		p.scanExpr(v.X, s, nil)
	case *ast.BinaryExpr:
		if v.Op == token.LAND || v.Op == token.LOR {
			p.scanExpr(v.X, s, nil)
			t := s.clone()
			p.assume(v.X, v.Op == token.LAND, t)
			p.scanExpr(v.Y, t, nil)
			s.evs = append(s.evs, t.evs[len(s.evs):]...)
			return
		}
		p.scanExpr(v.X, s, nil)
		p.scanExpr(v.Y, s, nil)
	case *ast.UnaryExpr:
		p.scanExpr(v.X, s, nil)
	case *ast.StarExpr:
		p.scanExpr(v.X, s, nil)
	case *ast.SelectorExpr:
		p.scanExpr(v.X, s, nil)
	case *ast.CallExpr:
		for _, a := range v.Args {
			p.scanExpr(a, s, nil)
		}
		if fl, _ := p.closureOf(v); fl != nil && fl.Type.Results != nil && len(fl.Type.Results.List) > 0 {
			p.scanValueClosure(fl, s)
		} else if _, isId := unparen(v.Fun).(*ast.Ident); !isId {
			p.scanExpr(v.Fun, s, nil)
		}
	case *ast.IndexExpr:
		p.scanExpr(v.X, s, nil)
		p.scanExpr(v.Index, s, nil)
		p.judgeIndex(v, s)
	case *ast.SliceExpr:
		p.scanExpr(v.X, s, nil)
		p.scanExpr(v.Low, s, nil)
		p.scanExpr(v.High, s, nil)
		p.scanExpr(v.Max, s, nil)
		p.judgeSlice(v, s)
	case *ast.CompositeLit:
		for _, el := range v.Elts {
			p.scanExpr(el, s, nil)
		}
	case *ast.KeyValueExpr:
		p.scanExpr(v.Value, s, nil)
	case *ast.TypeAssertExpr:
		p.scanExpr(v.X, s, nil)
	case *ast.FuncLit, *ast.Ident, *ast.BasicLit:
	}
}

// scanValueClosure judges the index expressions inside a value-returning
// closure (`next`) under its own if-guards, at the current index offset.
func (p *c34Parser) scanValueClosure(fl *ast.FuncLit, s *c34St) {
	var run func(list []ast.Stmt, st *c34St)
	run = func(list []ast.Stmt, st *c34St) {
		for _, x := range list {
			switch v := x.(type) {
			case *ast.ReturnStmt:
				for _, r := range v.Results {
					p.scanExpr(r, st, nil)
				}
				s.evs = append(s.evs, st.evs[len(s.evs):]...)
				return
			case *ast.IfStmt:
				p.scanExpr(v.Cond, st, nil)
				t := st.clone()
				p.assume(v.Cond, true, t)
				run(v.Body.List, t)
				st.evs = append(st.evs, s.evs[len(st.evs):]...)
				p.assume(v.Cond, false, st)
			default:
				p.scanNode(x, st)
			}
		}
		s.evs = append(s.evs, st.evs[len(s.evs):]...)
	}
	run(fl.Body.List, s.clone())
}

func (p *c34Parser) judgeIndex(ix *ast.IndexExpr, s *c34St) {
	t := p.info.TypeOf(ix.X)
	if t == nil {
		return
	}
	switch t.Underlying().(type) {
	case *types.Slice, *types.Array, *types.Basic:
	case *types.Pointer:
	default:
		return // map lookups and generic instantiations do not panic on range
	}
	idx := &c34Index{Expr: ix, On: p.render(ix.X), Text: p.render(ix)}
	if id, ok := unparen(ix.X).(*ast.Ident); ok {
		idx.Obj = p.info.ObjectOf(id)
	}
	if p.isObj(ix.X, p.block) {
		ci, cl, k, ok := p.lin(ix.Index)
		switch {
		case !ok || ci != 1 || cl != 0:
			idx.Why = "index is not <loop index> ± constant"
		case s.lb+s.off+k < 0:
			idx.Why = fmt.Sprintf("no dominating test shows %s ≥ 0 (known: %s ≥ %d at the start of the iteration)", p.render(ix.Index), p.idx.Name(), s.lb)
		case s.ub < 0 || s.off+k > s.ub:
			idx.Why = fmt.Sprintf("no dominating test shows %s < len(%s)", p.render(ix.Index), p.block.Name())
		default:
			idx.Safe = true
			idx.Why = fmt.Sprintf("%d ≤ offset %+d ≤ %d from the iteration's start index", -s.lb, s.off+k, s.ub)
		}
	} else {
		idx.Safe, idx.Why = p.judgeOther(ix, s)
	}
	s.evs = append(s.evs, c34Event{Kind: c34EvIndex, Pos: ix.Pos(), Off: s.off, Index: idx})
}

func (p *c34Parser) judgeSlice(se *ast.SliceExpr, s *c34St) {
	idx := &c34Index{Expr: se, On: p.render(se.X), Text: p.render(se)}
	if id, ok := unparen(se.X).(*ast.Ident); ok {
		idx.Obj = p.info.ObjectOf(id)
	}
	if !p.isObj(se.X, p.block) {
		idx.Safe, idx.Why = p.judgeOtherSlice(se, s)
		s.evs = append(s.evs, c34Event{Kind: c34EvIndex, Pos: se.Pos(), Off: s.off, Index: idx})
		return
	}
	lo, hasLo := 0, false
	okShape := !se.Slice3
	if se.Low != nil {
		ci, cl, k, ok := p.lin(se.Low)
		if ok && ci == 1 && cl == 0 {
			lo, hasLo = s.off+k, true
		} else if ok && ci == 0 && cl == 0 && k == 0 {
			// constant 0
		} else {
			okShape = false
		}
	}
	hi, hasHi := 0, false
	if se.High != nil {
		ci, cl, k, ok := p.lin(se.High)
		if ok && ci == 1 && cl == 0 {
			hi, hasHi = s.off+k, true
		} else if ok && ci == 0 && cl == 1 && k == 0 {
			// len(block)
		} else {
			okShape = false
		}
	}
	switch {
	case !okShape:
		idx.Why = "slice bounds are not <loop index> ± constant"
	case hasLo && s.lb+lo < 0:
		idx.Why = fmt.Sprintf("no dominating test shows %s ≥ 0", p.render(se.Low))
	case hasHi && (s.ub < 0 || hi-1 > s.ub):
		idx.Why = fmt.Sprintf("no dominating test shows %s ≤ len(%s)", p.render(se.High), p.block.Name())
	case hasHi && !hasLo && s.lb+hi < 0:
		idx.Why = fmt.Sprintf("no dominating test shows %s ≥ 0", p.render(se.High))
	case hasLo && hasHi && lo > hi:
		idx.Why = "low bound above high bound"
	case hasLo && !hasHi && (s.ub < 0 || lo-1 > s.ub):
		idx.Why = fmt.Sprintf("no dominating test shows %s ≤ len(%s)", p.render(se.Low), p.block.Name())
	default:
		idx.Safe = true
		idx.Why = "bounds within the facts of the dominating tests"
	}
	s.evs = append(s.evs, c34Event{Kind: c34EvIndex, Pos: se.Pos(), Off: s.off, Index: idx})
}

// judgeOther: index expressions on slices other than the input. Recognised:
//   x[len(x)-1]            where x is known non-empty (see nonEmpty)
//   x[0]                   directly after x = append(x, …) on the same path
//   T[v]                   v := <nonneg> % len(T) under a test that makes the dividend ≥ 0
func (p *c34Parser) judgeOther(ix *ast.IndexExpr, s *c34St) (bool, string) {
	x := unparen(ix.X)
	// x[len(x)-1]
	if be, ok := unparen(ix.Index).(*ast.BinaryExpr); ok && be.Op == token.SUB {
		if call, isLen := isBuiltinCall(p.info, be.X, "len"); isLen && p.c.sameExpr(call.Args[0], x) {
			if k, ok := constInt(p.info, be.Y); ok && k == 1 {
				if p.nonEmpty(x, s) {
					return true, "last element of a slice that is never empty here"
				}
				return false, fmt.Sprintf("no fact shows len(%s) ≥ 1", p.render(x))
			}
		}
	}
	if k, ok := constInt(p.info, ix.Index); ok && k == 0 {
		if p.nonEmpty(x, s) {
			return true, "first element of a slice that was appended to on this path"
		}
		return false, fmt.Sprintf("no fact shows len(%s) ≥ 1", p.render(x))
	}
	// T[v] with v := e % len(T)
	if id, ok := unparen(ix.Index).(*ast.Ident); ok {
		o := p.info.ObjectOf(id)
		for k := len(s.evs) - 1; k >= 0; k-- {
			ev := s.evs[k]
			if ev.Kind != c34EvStore || ev.Store.Obj != o || ev.Store.Rhs == nil {
				continue
			}
			be, ok := unparen(ev.Store.Rhs).(*ast.BinaryExpr)
			if !ok || be.Op != token.REM {
				break
			}
			call, isLen := isBuiltinCall(p.info, be.Y, "len")
			if !isLen || !p.c.sameExpr(call.Args[0], x) {
				break
			}
			if !p.tableNonEmpty(x) {
				return false, fmt.Sprintf("%s may be empty (modulo by zero)", p.render(x))
			}
			if p.nonNegHere(be.X, s) {
				return true, "remainder of a non-negative value by the table length"
			}
			return false, fmt.Sprintf("no dominating test shows %s ≥ 0, a negative remainder indexes out of range", p.render(be.X))
		}
	}
	return false, "unrecognised index form"
}

func (p *c34Parser) judgeOtherSlice(se *ast.SliceExpr, s *c34St) (bool, string) {
	x := unparen(se.X)
	// out[:len(out)-k] is judged by C37 (R37b); x[:len(x)-1] needs len(x) ≥ 1
	if se.Low == nil && se.High != nil && !se.Slice3 {
		if be, ok := unparen(se.High).(*ast.BinaryExpr); ok && be.Op == token.SUB {
			if call, isLen := isBuiltinCall(p.info, be.X, "len"); isLen && p.c.sameExpr(call.Args[0], x) {
				if k, ok := constInt(p.info, be.Y); ok && k >= 0 {
					if p.isObj(x, p.out) {
						return true, "output truncation (judged by R37b)"
					}
					if p.lenAtLeast(x, int(k), s) {
						return true, fmt.Sprintf("dominated by a test that len(%s) ≥ %d", p.render(x), k)
					}
					return false, fmt.Sprintf("no dominating test shows len(%s) ≥ %d", p.render(x), k)
				}
			}
		}
	}
	return false, "unrecognised slice form"
}

// lenAtLeast: a decision / assumed fact `len(x) > k-1` holds. Looks at the
// enclosing decisions recorded on the path plus the temporary facts pushed by
// scanNode for inert ifs (kept in s.lenFacts).
func (p *c34Parser) lenAtLeast(x ast.Expr, k int, s *c34St) bool {
	if k <= 0 {
		return true
	}
	for _, f := range s.lenFacts {
		if p.c.sameExpr(f.x, x) && f.min >= k {
			return true
		}
	}
	return false
}

type c34LenFact struct {
	x   ast.Expr
	min int
}

// nonEmpty: x is the local colour stack (never shrinks below one element: its
// only shrinking statement is guarded by len(x) > 1 and it starts non-empty) or
// a slice appended to earlier on this path.
func (p *c34Parser) nonEmpty(x ast.Expr, s *c34St) bool {
	for k := len(s.evs) - 1; k >= 0; k-- {
		ev := s.evs[k]
		if ev.Kind != c34EvStore || ev.Store.Rhs == nil {
			continue
		}
		if call, ok := isBuiltinCall(p.info, ev.Store.Rhs, "append"); ok && len(call.Args) >= 2 && p.c.sameExpr(call.Args[0], x) {
			// the store target must be x itself
			if ev.Store.Target == p.render(x) {
				return true
			}
		}
		if ev.Store.Target == p.render(x) {
			break
		}
	}
	if id, ok := x.(*ast.Ident); ok {
		return p.stackNeverEmpty(p.info.ObjectOf(id))
	}
	return false
}

// stackNeverEmpty: local slice initialised with a non-empty composite literal
// whose every later assignment is an append or a re-slice x[:len(x)-1] inside
// `if len(x) > 1`.
func (p *c34Parser) stackNeverEmpty(o types.Object) bool {
	if o == nil || o.Parent() == p.pk.Types.Scope() {
		return false
	}
	okAll, hasInit := true, false
	walkStack(p.fd.Body, func(n ast.Node, stack []ast.Node) bool {
		as, ok := n.(*ast.AssignStmt)
		if !ok {
			return true
		}
		for k, l := range as.Lhs {
			id, ok := l.(*ast.Ident)
			if !ok || p.info.ObjectOf(id) != o || k >= len(as.Rhs) {
				continue
			}
			r := unparen(as.Rhs[k])
			if as.Tok == token.DEFINE {
				if cl, ok := r.(*ast.CompositeLit); ok && len(cl.Elts) > 0 {
					hasInit = true
				} else {
					okAll = false
				}
				continue
			}
			if call, ok := isBuiltinCall(p.info, r, "append"); ok && p.isObj(call.Args[0], o) {
				continue
			}
			if se, ok := r.(*ast.SliceExpr); ok && p.isObj(se.X, o) && se.Low == nil && se.High != nil {
				// x[:len(x)-1] under len(x) > 1
				good := false
				if be, ok := unparen(se.High).(*ast.BinaryExpr); ok && be.Op == token.SUB {
					if call, isLen := isBuiltinCall(p.info, be.X, "len"); isLen && p.isObj(call.Args[0], o) {
						if kk, ok := constInt(p.info, be.Y); ok && kk >= 0 {
							for _, f := range factsOf(guardsAt(p.info, append(stack, n))) {
								if x, op, c, ok := cmpNorm(p.info, f.E); ok {
									if call2, isLen2 := isBuiltinCall(p.info, x, "len"); isLen2 && p.isObj(call2.Args[0], o) {
										pred := intPred(op, c)
										if !f.True {
											pp := pred
											pred = func(v int64) bool { return !pp(v) }
										}
										// the guard must exclude every length ≤ kk
										all := true
										for v := int64(0); v <= kk; v++ {
											if pred(v) {
												all = false
											}
										}
										if all {
											good = true
										}
									}
								}
							}
						}
					}
				}
				if good {
					continue
				}
			}
			okAll = false
		}
		return true
	})
	return okAll && hasInit
}

// tableNonEmpty: package-level slice initialised with ≥1 elements, never assigned.
func (p *c34Parser) tableNonEmpty(x ast.Expr) bool {
	id, ok := unparen(x).(*ast.Ident)
	if !ok {
		return false
	}
	o := p.info.ObjectOf(id)
	if o == nil || o.Parent() != p.pk.Types.Scope() || p.pkgVarAssigned(o) {
		return false
	}
	cl, ok := unparen(p.pkgVarInit(o)).(*ast.CompositeLit)
	return ok && len(cl.Elts) > 0
}

// nonNegHere: a decision on the path shows e ≥ 0 (e unchanged since: the
// stores between the decision and here do not target e).
func (p *c34Parser) nonNegHere(e ast.Expr, s *c34St) bool {
	target := p.render(e)
	for _, d := range s.decs {
		for _, f := range factsOf([]Guard{{Cond: d.E, Neg: !d.Truth}}) {
			x, op, c, ok := cmpNorm(p.info, f.E)
			if !ok || !p.c.sameExpr(x, e) {
				continue
			}
			pred := intPred(op, c)
			if !f.True {
				pp := pred
				pred = func(v int64) bool { return !pp(v) }
			}
			neg := false
			for v := int64(-4); v < 0; v++ {
				if pred(v) {
					neg = true
				}
			}
			if neg {
				continue
			}
			// unchanged since the decision, except by increments
			changed := false
			for _, ev := range s.evs[min(d.Seq, len(s.evs)):] {
				if ev.Kind == c34EvStore && ev.Store.Target == target && ev.Store.Class != "++" {
					changed = true
				}
			}
			if !changed {
				return true
			}
		}
	}
	return false
}

// ---------------------------------------------------------------- helpers for consumers

// groups returns the loop-body paths grouped by key, keys sorted.
func (p *c34Parser) groups() ([]string, map[string][]*c34Path) {
	m := map[string][]*c34Path{}
	for _, pa := range p.paths {
		m[pa.Key()] = append(m[pa.Key()], pa)
	}
	var keys []string
	for k := range m {
		keys = append(keys, k)
	}
	sort.Strings(keys)
	return keys, m
}

func (pa *c34Path) stores(target string) []*c34Store {
	var out []*c34Store
	for _, e := range pa.Events {
		if e.Kind == c34EvStore && e.Store.Target == target {
			out = append(out, e.Store)
		}
	}
	return out
}

func (pa *c34Path) emits() []c34Part {
	var out []c34Part
	for _, e := range pa.Events {
		if e.Kind == c34EvEmit {
			out = append(out, e.Parts...)
		}
	}
	return out
}

// whereOf names the syntactic place of a position inside Parse: a closure, an
// arm of the rune switch (case label + tokenizer-state arm), the loop prelude,
// or the code around the loop.
func (p *c34Parser) whereOf(pos token.Pos) string {
	for o, fl := range p.closures {
		if fl.Pos() <= pos && pos < fl.End() {
			return "closure " + o.Name()
		}
	}
	if pos < p.loop.Pos() {
		return "prologue"
	}
	if pos >= p.loop.End() {
		return "epilogue"
	}
	if p.outer == nil || pos < p.outer.Pos() || pos >= p.outer.End() {
		return "prelude"
	}
	if p.outer.Tag != nil && p.outer.Tag.Pos() <= pos && pos < p.outer.Tag.End() {
		return "rune switch"
	}
	for _, st := range p.outer.Body.List {
		cc := st.(*ast.CaseClause)
		if pos < cc.Pos() || pos >= cc.End() {
			continue
		}
		label := "default"
		if cc.List != nil {
			var qs []string
			for _, e := range cc.List {
				if cv := constOf(p.info, e); cv != nil && cv.Kind() == constant.Int {
					x, _ := constant.Int64Val(cv)
					qs = append(qs, c34Q(rune(x)))
				}
			}
			label = strings.Join(qs, ",")
		}
		for _, b := range cc.Body {
			sw, ok := b.(*ast.SwitchStmt)
			if !ok || sw.Tag != nil || pos < sw.Pos() || pos >= sw.End() {
				continue
			}
			for _, st2 := range sw.Body.List {
				c2 := st2.(*ast.CaseClause)
				if pos < c2.Pos() || pos >= c2.End() {
					continue
				}
				if c2.List == nil {
					return label + ":default"
				}
				var gs []string
				for _, e := range c2.List {
					gs = append(gs, p.label(e))
				}
				return label + ":" + strings.Join(gs, ", ")
			}
		}
		return label
	}
	return "loop"
}

// label renders a guard for use in obligation keys in a form that does not
// depend on how the comparison is spelled: integer comparisons of state
// counters become value sets over -1…3, index bounds become `i≥k` / `i+k<len`,
// rune tests become src[±k]='c', operands of == are ordered.
func (p *c34Parser) label(e ast.Expr) string {
	e = unparen(e)
	switch v := e.(type) {
	case *ast.UnaryExpr:
		if v.Op == token.NOT {
			return "!" + p.label(v.X)
		}
	case *ast.BinaryExpr:
		switch v.Op {
		case token.LAND:
			return p.label(v.X) + " && " + p.label(v.Y)
		case token.LOR:
			l, r := p.label(v.X), p.label(v.Y)
			if _, ok := unparen(v.X).(*ast.BinaryExpr); ok && unparen(v.X).(*ast.BinaryExpr).Op == token.LAND {
				l = "(" + l + ")"
			}
			if b, ok := unparen(v.Y).(*ast.BinaryExpr); ok && b.Op == token.LAND {
				r = "(" + r + ")"
			}
			return "(" + l + " || " + r + ")"
		case token.EQL, token.NEQ, token.LSS, token.LEQ, token.GTR, token.GEQ:
			st := p.newState()
			if off, r, op, ok := p.blockRuneCmp(e, st); ok {
				if op == token.EQL {
					return fmt.Sprintf("src[%+d]=%s", off, c34Q(r))
				}
				return fmt.Sprintf("src[%+d]≠%s", off, c34Q(r))
			}
			a1, b1, c1, ok1 := p.lin(v.X)
			a2, b2, c2, ok2 := p.lin(v.Y)
			if ok1 && ok2 && (a1 != a2 || b1 != b2) {
				ci, cl, k := a1-a2, b1-b2, c1-c2
				op := v.Op
				if ci < 0 || (ci == 0 && cl < 0) {
					ci, cl, k = -ci, -cl, -k
					op = c34Flip(op)
				}
				n := "i"
				switch {
				case ci == 1 && cl == 0: // i + k op 0
					switch op {
					case token.GTR:
						return fmt.Sprintf("%s≥%d", n, -k+1)
					case token.GEQ:
						return fmt.Sprintf("%s≥%d", n, -k)
					case token.LSS:
						return fmt.Sprintf("%s<%d", n, -k)
					case token.LEQ:
						return fmt.Sprintf("%s<%d", n, -k+1)
					case token.EQL:
						return fmt.Sprintf("%s=%d", n, -k)
					case token.NEQ:
						return fmt.Sprintf("%s≠%d", n, -k)
					}
				case ci == 1 && cl == -1: // i + k - L op 0
					switch op {
					case token.LSS:
						return fmt.Sprintf("%s%+d<len", n, k)
					case token.LEQ:
						return fmt.Sprintf("%s%+d<len", n, k-1)
					case token.GEQ:
						return fmt.Sprintf("%s%+d≥len", n, k)
					case token.GTR:
						return fmt.Sprintf("%s%+d≥len", n, k-1)
					}
				}
			}
			if x, op, k, ok := cmpNorm(p.info, e); ok && constOf(p.info, x) == nil {
				pr := intPred(op, k)
				var vals []string
				for n := int64(-1); n <= 3; n++ {
					if pr(n) {
						vals = append(vals, fmt.Sprint(n))
					}
				}
				return p.label(x) + "∈{" + strings.Join(vals, ",") + "}"
			}
			l, r := p.label(v.X), p.label(v.Y)
			if (v.Op == token.EQL || v.Op == token.NEQ) && l > r {
				l, r = r, l
			}
			return l + v.Op.String() + r
		}
	case *ast.CallExpr:
		if call, ok := isBuiltinCall(p.info, v, "len"); ok {
			return "len(" + p.label(call.Args[0]) + ")"
		}
	}
	if id, ok := e.(*ast.Ident); ok && p.pendingVar != nil && p.info.ObjectOf(id) == p.pendingVar {
		return "namePending"
	}
	return p.render(e)
}
