package main

// R20g — constant indices into the statement's own rune slices. R20c proves the
// indices into the parser's input (`expression`); the parsed pieces (command,
// parameters, paramTemp …) are slices too, and `st.command[0]` on a statement that
// parsed without a command name (a lone `:int`, a trailing `\`) panics in
// ParseBlock just the same.
func init() {
	extend("C20", func(c *Ctx) {
		c.Rule("R20g", "lang/expressions: every constant / len-relative index into a string or into a slice field of StatementT (st.command[0], tree.statement.parameters[0] …) is control-dependent on guards that exclude every length for which the index is out of range (same evaluation as R19i: comparisons over len(x) among the if/switch guards, earlier cases of a tagless switch included)")
		n := c.constIndexGuarded("R20g", "lang/expressions", "StatementT", nil)
		c.MinCount("R20g", "constant indices into parsed pieces", n, 3)
	})
}
