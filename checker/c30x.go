package main

import (
	"go/ast"
	"go/types"
)

// R30g — "most recent value written": a Write that declines to store because of
// the TTL it was given leaves the OLDER row in place, and Read (whose predicate
// only looks at the stored row's ttl) keeps serving it although a newer write
// superseded it.
func init() {
	extend("C30", func(c *Ctx) {
		c.Rule("R30g", "no write is declined because of its TTL: in cachedb.Write no return that precedes the upsert, and not the upsert itself, is control-dependent on the ttl parameter (or a local computed from it), and cache.Write's call of cachedb.Write is not either — otherwise the previous row under that key outlives a newer write")
		check := func(pkgRel, fname string, isStore func(info *types.Info, call *ast.CallExpr) bool, storeName string) {
			fd, pk := c.MustFunc("R30g", pkgRel, "", fname)
			if fd == nil {
				return
			}
			info := pk.TypesInfo
			fname = pk.Name + "." + fname
			// the time.Time parameter
			tainted := map[types.Object]bool{}
			if fd.Type.Params != nil {
				for _, f := range fd.Type.Params.List {
					for _, nm := range f.Names {
						if o := info.Defs[nm]; o != nil && namedName(o.Type()) == "Time" {
							tainted[o] = true
						}
					}
				}
			}
			if len(tainted) == 0 {
				c.Undecided("R30g", fname+":ttl-param", fd.Pos(), "%s has no time.Time parameter", fname)
				return
			}
			// locals computed from it (fixpoint)
			for changed := true; changed; {
				changed = false
				ast.Inspect(fd.Body, func(nd ast.Node) bool {
					as, ok := nd.(*ast.AssignStmt)
					if !ok {
						return true
					}
					for i, l := range as.Lhs {
						id, ok := l.(*ast.Ident)
						if !ok {
							continue
						}
						r := as.Rhs[0]
						if len(as.Rhs) == len(as.Lhs) {
							r = as.Rhs[i]
						}
						o := info.ObjectOf(id)
						if o == nil || tainted[o] || types.Identical(o.Type(), types.Universe.Lookup("error").Type()) {
							continue // an error returned by a call that was merely given the ttl is not "computed from" it
						}
						for t := range tainted {
							if mentions(info, r, t) {
								tainted[o] = true
								changed = true
								break
							}
						}
					}
					return true
				})
			}
			dependsOnTTL := func(stack []ast.Node) (string, bool) {
				for _, g := range guardsAt(info, stack) {
					for _, e := range append([]ast.Expr{g.Cond, g.Tag}, g.Cases...) {
						if e == nil {
							continue
						}
						for t := range tainted {
							if mentions(info, e, t) {
								return c.src(e), true
							}
						}
					}
				}
				return "", false
			}
			var store *ast.CallExpr
			var storeStack []ast.Node
			nStores := 0
			walkStack(fd.Body, func(nd ast.Node, stack []ast.Node) bool {
				if call, ok := nd.(*ast.CallExpr); ok && isStore(info, call) {
					nStores++
					if store == nil {
						store, storeStack = call, append([]ast.Node(nil), stack...)
					}
				}
				return true
			})
			if store == nil {
				c.Lost("R30g", fname+":store", "%s no longer calls %s", fname, storeName)
				return
			}
			if cond, dep := dependsOnTTL(storeStack); dep {
				c.Viol("R30g", fname+":store-guard", store.Pos(), "%s in %s is executed only when %s holds — a write with another TTL leaves the previous row to be served", storeName, fname, cond)
			} else {
				c.OK("R30g", fname+":store-guard", store.Pos(), "%s is not control-dependent on the ttl", storeName)
			}
			bad := 0
			walkStack(fd.Body, func(nd ast.Node, stack []ast.Node) bool {
				if _, ok := nd.(*ast.FuncLit); ok {
					return false
				}
				rs, ok := nd.(*ast.ReturnStmt)
				if !ok || rs.Pos() > store.Pos() {
					return true
				}
				if cond, dep := dependsOnTTL(stack); dep {
					bad++
					c.Viol("R30g", fname+":early-return", rs.Pos(), "%s returns before %s when %s — the write is declined because of its TTL and the previous row under the key stays readable", fname, storeName, cond)
				}
				return true
			})
			if bad == 0 {
				c.OK("R30g", fname+":early-return", fd.Pos(), "no return before %s depends on the ttl", storeName)
			}
		}
		check(c30DB, "Write", func(info *types.Info, call *ast.CallExpr) bool {
			fn, ok := callee(info, call).(*types.Func)
			return ok && fn.Pkg() != nil && fn.Pkg().Path() == "database/sql" && (fn.Name() == "Exec" || fn.Name() == "ExecContext")
		}, "the upsert (db.Exec)")
		check(c30Cache, "Write", func(info *types.Info, call *ast.CallExpr) bool {
			fn, ok := callee(info, call).(*types.Func)
			return ok && fn.Pkg() != nil && fn.Pkg().Path() == modPath+"/"+c30DB && fn.Name() == "Write"
		}, "cachedb.Write")
	})
}
