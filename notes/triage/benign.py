#!/usr/bin/env python3
# negative controls: behaviour-preserving edits must not change the verdict
import subprocess, sys, tempfile, os, json
here='/tmp/agents/B'; repo='/repo'
cases=[
 ("C10","rename-escape-flag","lang/expressions/parse_statement.go",[("var escape bool","var esc bool"),("\t\tif escape {\n","\t\tif esc {\n"),("escape = false\n\t\t\t\tcontinue\n\t\t\t}\n\n\t\t\tif !exec","esc = false\n\t\t\t\tcontinue\n\t\t\t}\n\n\t\t\tif !exec"),("appendToParam(tree, '\\\\', r)\n\t\t\t\tescape = false","appendToParam(tree, '\\\\', r)\n\t\t\t\tesc = false"),("\t\t\tescape = false\n\t\t\tcontinue\n\t\t}\n\n\t\tswitch r {","\t\t\tesc = false\n\t\t\tcontinue\n\t\t}\n\n\t\tswitch r {"),("\t\t\tescape = true\n","\t\t\tesc = true\n")]),
 ("C10","replaceall-and-reorder","utils/escape/escape.go",[("func CommandLine(s []string) {\n\tfor i := range s {\n\t\ts[i] = strings.Replace(s[i], `\\`, `\\\\`, -1)\n\t\ts[i] = strings.Replace(s[i], `$`, `\\$`, -1)\n\t\ts[i] = strings.Replace(s[i], `@`, `\\@`, -1)\n","func CommandLine(s []string) {\n\tfor i := range s {\n\t\ts[i] = strings.Replace(s[i], `\\`, `\\\\`, -1)\n\t\ts[i] = strings.ReplaceAll(s[i], `@`, `\\@`)\n\t\ts[i] = strings.ReplaceAll(s[i], `$`, \"\\\\$\")\n")]),
 ("C10","amp-arm-as-switch","lang/expressions/parse_statement.go",[("\t\t\tif tree.nextChar() == '&' {\n\t\t\t\terr := tree.nextParameter()\n\t\t\t\ttree.charPos--\n\t\t\t\treturn err\n\t\t\t}\n\t\t\ttree.statement.validFunction = false\n\t\t\tappendToParam(tree, r)","\t\t\tswitch next := tree.nextChar(); {\n\t\t\tcase '&' != next:\n\t\t\t\ttree.statement.validFunction = false\n\t\t\t\tappendToParam(tree, '&')\n\t\t\tdefault:\n\t\t\t\terr := tree.nextParameter()\n\t\t\t\ttree.charPos--\n\t\t\t\treturn err\n\t\t\t}")]),
 ("C09","swap-conjuncts-and-if-chain","lang/expressions/parse_quotes.go",[("\t\tcase r == '\\\\' && qEnd != ')':","\t\tcase !(qEnd == ')') && '\\\\' == r:"),("\t\t\tswitch r {\n\t\t\tcase 's':\n\t\t\t\tvalue = append(value, ' ')\n\t\t\tcase 't':\n\t\t\t\tvalue = append(value, '\\t')","\t\t\tswitch {\n\t\t\tcase r == 's':\n\t\t\t\tvalue = append(value, ' ')\n\t\t\tcase r == 't':\n\t\t\t\tvalue = append(value, '\\t')"),("\t\t\tcase 'r':\n\t\t\t\tvalue = append(value, '\\r')\n\t\t\tcase 'n':\n\t\t\t\tvalue = append(value, '\\n')\n\t\t\tdefault:\n\t\t\t\tvalue = append(value, r)\n\t\t\t}\n\t\t\t// end escape","\t\t\tcase r == 'r':\n\t\t\t\tvalue = append(value, 13)\n\t\t\tcase r == 'n':\n\t\t\t\tvalue = append(value, 10)\n\t\t\tdefault:\n\t\t\t\tvalue = append(value, r)\n\t\t\t}\n\t\t\t// end escape")]),
 ("C08","range-value-and-if","lang/expressions/parse_statement.go",[("\t\t\tfor i := range t {\n\t\t\t\tvalue = []rune(t[i])\n\t\t\t\tappendToParam(tree, value...)","\t\t\tfor _, elem := range t {\n\t\t\t\trunes := []rune(elem)\n\t\t\t\tappendToParam(tree, runes...)"),("\t\t\t\tswitch {\n\t\t\t\tcase execScalar:\n\t\t\t\t\tappendToParam(tree, []rune(v.(string))...)\n\t\t\t\t\ttree.statement.canHaveZeroLenStr = true\n\t\t\t\tcase !tokenise:\n\t\t\t\t\tappendToParam(tree, value[1:]...)\n\t\t\t\tdefault:\n\t\t\t\t\tappendToParam(tree, value...)\n\t\t\t\t}","\t\t\t\tif execScalar {\n\t\t\t\t\ttree.statement.canHaveZeroLenStr = true\n\t\t\t\t\ttxt := v.(string)\n\t\t\t\t\tappendToParam(tree, []rune(txt)...)\n\t\t\t\t} else if !tokenise {\n\t\t\t\t\tappendToParam(tree, value[1:]...)\n\t\t\t\t} else {\n\t\t\t\t\tappendToParam(tree, value...)\n\t\t\t\t}")]),
 ("C08","getvar-switch-form","lang/expressions/variables.go",[("\tif strOrVal == varAsString {\n\t\tvalue, err = tree.p.Variables.GetString(nameS)\n\t\tif err != nil {\n\t\t\treturn nil, \"\", err\n\t\t}\n\t\tvalue = utils.CrLfTrimString(value.(string))\n\n\t} else {","\tif strOrVal != varAsValue {\n\t\tvalue, err = tree.p.Variables.GetString(nameS)\n\t\tif nil != err {\n\t\t\treturn nil, \"\", err\n\t\t}\n\t\tvalue = utils.CrLfTrimString(value.(string))\n\n\t} else {")]),
]
def verdict(prop, ov=None):
    cmd=[here+'/bin/murexlint','-repo',repo,'-verif',here,'-noevidence']
    if ov: cmd+=['-overlay',ov]
    cmd+=[prop,'quick']
    p=subprocess.run(cmd,capture_output=True,text=True)
    lines=sorted(l.split(' at ')[0] for l in p.stdout.splitlines() if l.startswith(('VIOLATION:','UNDECIDED:','ANCHOR-LOST:','KNOWN-FINDING:')))
    return p.returncode, lines, p.stderr
base={}
for prop,name,file,edits in cases:
    if prop not in base: base[prop]=verdict(prop)
    src=open(os.path.join(repo,file)).read()
    for old,new in edits:
        assert src.count(old)==1,(name,old[:40],src.count(old))
        src=src.replace(old,new)
    t=tempfile.NamedTemporaryFile('w',suffix='.go',delete=False); t.write(src); t.close()
    rc,lines,err=verdict(prop,f"{file}={t.name}"); os.unlink(t.name)
    same = (rc,lines)==base[prop][:2]
    print(f"benign {prop} {name}: {'same verdict' if same else 'DIFFERENT'} rc={rc}")
    if not same:
        for l in lines:
            if l not in base[prop][1]: print('   +',l[:220])
        print(err[-300:])
